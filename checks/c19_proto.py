"""C19, client side, protocol level: the real aioftp.Client against a server that answers anything (ClientProto.tla).

Code -> spec: seeded hostile server policies and TLC-generated server behaviours (spec -> code, MC_Client -simulate) are played
against the real client; every execution - what the client sends, when it opens and closes data connections, how each call ends,
whether it is still waiting at the end - must be a behaviour of ClientProto.  The design configuration explores the client
against an arbitrary server exhaustively (bounded) with the outcome and no-sitting-on-input invariants.
"""
import collections

from harness import clientproto as cp
from harness import corecheck, mc, tlc

MUST = ("MCCall", "MCReply", "MCEof", "MCData", "MCDataEof", "MCClientEv")


def _run(sc):
    if "plan" in sc:
        return cp.run_scenario(sc)
    return cp.run_random(sc)


def strip(t):
    return [{k: v for k, v in e.items() if k != "exc"} for e in t]


def features(trace):
    """What a trace exercised (vacuity accounting)."""
    f = set()
    verbs = []
    for e in trace:
        if e["ev"] == "Call":
            verbs = []
        elif e["ev"] == "Send":
            if e["v"] == "PASV" and "EPSV" in verbs or e["v"] == "EPSV" and "PASV" in verbs:
                f.add("passive-fallback")
            if e["v"] == "LIST" and "MLSD" in verbs:
                f.add("mlsd-fallback")
            if e["v"] in ("MLSD", "LIST") and "MLST" in verbs:
                f.add("mlst-fallback")
            verbs.append(e["v"])
        elif e["ev"] == "Ret":
            f.add("ret-" + e["kind"])
        elif e["ev"] == "End" and e["blocked"]:
            f.add("blocked-at-end")
        elif e["ev"] == "DClose":
            f.add("stream-closed")
    return f


NEED = {"passive-fallback", "mlsd-fallback", "mlst-fallback", "ret-ok", "ret-false", "ret-SCE", "ret-CRE", "ret-other", "blocked-at-end",
        "stream-closed"}


def run_into(chk, tier, seed):
    mc.into(chk, mc.run_config("MC_Client_q" if tier == "quick" else "MC_Client_t", "MC_Client", must_cover=MUST, timeout=3000))
    nrand, nguide = (500, 200) if tier == "quick" else (8000, 3000)
    scs = [cp.rand_scenario(seed * 100003 + i) for i in range(nrand)]
    guided, gsteps = cp.guided(nguide, 45, seed + 1)
    scs += guided
    results = corecheck.pool(14).map(_run, scs, chunksize=max(1, len(scs) // 100))
    crashes = [r for r in results if r["crash"]]
    if crashes:
        raise RuntimeError("harness failure in client protocol rig: %s" % crashes[0]["crash"])
    traces = [strip(r["trace"]) for r in results]
    res, tot = tlc.validate_plain("TraceClientProto", traces, procs=14, chunk=250)
    chk.add_tlc(tot)
    chk.cov["traces_validated_against_impl"] += len(traces)
    chk.cov["evaluations"] += len(traces)
    seen = set()
    kinds = collections.Counter()
    for t in traces:
        f = features(t)
        seen |= f
        for x in f:
            kinds[x] += 1
    missing = NEED - seen
    if missing:
        raise RuntimeError("vacuity: the client protocol family never exercised %s" % sorted(missing))
    ndiag = 0
    for i in sorted(res):
        m, n = res[i]
        if m >= n:
            continue
        e = results[i]["trace"][m]
        sig = {"at": "client-proto", "ev": e["ev"]}
        for k in ("v", "kind", "code", "blocked"):
            if k in e:
                sig[k] = e[k]
        verbs = [x["v"] for x in results[i]["trace"][:m] if x["ev"] == "Send"]
        calls = [x["op"] for x in results[i]["trace"][:m] if x["ev"] == "Call"]
        sig["call"] = calls[-1] if calls else ""
        sig["after"] = verbs[-1] if verbs else ""
        detail = {"matched": m, "length": n, "first_unmatched": e, "before": results[i]["trace"][max(0, m - 12):m]}
        if ndiag < 3:
            ndiag += 1
            try:
                detail["last_spec_state"] = tlc.diagnose_plain("TraceClientProto", traces[i], m)[:3000]
            except Exception as ex:  # diagnosis is a convenience
                detail["last_spec_state"] = repr(ex)
        sc = scs[i]
        replay = {"calls": sc["calls"], "plan": results[i].get("plan"), "how": "harness.clientproto.run_scenario({'calls':..., 'plan':...})"}
        chk.violation(sig, detail, replay)
    chk.notes["client_protocol"] = {
        "random_policies": nrand, "tlc_generated_behaviours": len(guided), "tlc_generated_steps": gsteps, "features": dict(sorted(kinds.items())),
        "rule": ("real aioftp.Client (connect, login, pwd, cwd/cdup, rmd, dele, rename, abort with and without waiting, list with each raw_command, "
                 "stat, exists, make_directory depth 1-3 with/without parents, download/upload stream with and without offset, quit; four "
                 "passive_commands settings) against a scripted server: seeded policies that answer properly except with probability p per "
                 "decision (any code, wrong reply shape, dead port, missing/duplicated preliminary reply, unparsable listing line, end of file) and "
                 "server behaviours generated by TLC from MC_Client; each execution validated against ClientProto.tla; a call still running at "
                 "the end must be waiting for input the server never sent"),
    }
