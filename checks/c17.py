"""C17 - concurrent sessions do not interfere with each other."""
import random

from harness import corecheck, gen, mc, report, tlc

# three sessions on disjoint paths: s1 = u1 working in /A (files f, n1), s2 = u2 in /B/h, s3 = anon (read only) in /P
ASSIGN = {1: "u1", 2: "u2", 3: "anon"}


def scripts(rng):
    out = {}
    for s, u in ASSIGN.items():
        cor = gen.corpus(s, u)
        # (scripts that advance the shared virtual clock are left out: a peer that lets time pass while another
        #  session waits for its data connection changes that session's timing, which is not interference)
        if u == "anon":
            names = ["retr_pre", "retr_post", "list", "refused", "retr_rest"]
        else:
            names = [n for n in cor if n != "nodata"]
        out[s] = cor[rng.choice(names)]
    return out


def transcript(result, s):
    """What session s saw: reply codes in order and the bytes received on its data connections."""
    rep, data = [], []
    for e in result["trace"]:
        if e.get("s") != s:
            continue
        if e["ev"] == "Reply":
            rep.append(e["code"])
        elif e["ev"] == "DataOut":
            data += e["data"]
    return rep, data


def strip_times(b):
    return b


def families(tier, rng):
    fam = []
    n = 150 if tier == "quick" else 2500
    for i in range(n):
        scr = scripts(rng)
        sess = [1, 2, 3] if rng.random() < 0.5 else rng.sample([1, 2, 3], 2)
        # one of them may crash mid-way
        if rng.random() < 0.4:
            v = rng.choice(sess)
            k = rng.randrange(2, len(scr[v]))
            # (it may die in the middle of a line, even in the middle of a character)
            frag = rng.choice([None, None, list(b"PW"), list(b"CWD caf\xc3"), list(b"MKD \xe2\x82"), list(b"\xf0\x9f")])
            scr[v] = scr[v][:k] + ([["sendraw", v, frag]] if frag else []) + [["vanish", v] if rng.random() < 0.7 else ["vanish", v, "reset"]]
        sch = {"concurrent": {str(s): scr[s] for s in sess}, "seed": rng.randrange(1 << 30), "gate_prob": rng.choice([0.0, 0.3, 0.6])}
        fam.append(("merge", (scr, sess, sch)))
    return fam


def lookers():
    """One session's MLST / MLSD / LIST is held in its j-th backend call while another session (another user, another file of another
    size) does a complete one; then the first goes on.  What each is told must be about its own file."""
    login = {1: [["connect", 1], ["send", 1, "USER u1"], ["send", 1, "PASS pw1"]], 2: [["connect", 2], ["send", 2, "USER u2"]],
             3: [["connect", 3], ["send", 3, "USER anonymous"]]}
    target = {1: "f", 2: "f", 3: "pub"}
    def look(s, kind):
        if kind == "mlst":
            return [["send", s, "MLST " + target[s]]]
        if kind == "mlstd":
            return [["send", s, "MLST ."]]
        return [["send", s, "EPSV"], ["dconnect", s], ["send", s, kind.upper()], ["deof", s]]
    out = []
    for a, b in ((1, 2), (2, 1), (1, 3), (3, 2)):
        for ka in ("mlst", "mlsd", "list", "mlstd"):
            for kb in ("mlst", "mlsd", "list"):
                for j in range(1, 9):
                    la = look(a, ka)
                    st = login[a] + login[b] + la[:-1] + [["gate", a, None, j]] + la[-1:]
                    if ka in ("mlsd", "list"):   # (the transfer command is the one before the end-of-file step)
                        st = login[a] + login[b] + la[:2] + [["gate", a, None, j], la[2]]
                    st += look(b, kb) + [["release", a]] + (la[3:] if ka in ("mlsd", "list") else []) + [["send", a, "PWD"], ["send", b, "PWD"]]
                    out.append(st)
    return out


def twin_verbs():
    """Two sessions send the same verb, each on its own path; the first is held in its j-th backend call while the second runs."""
    login = {1: [["connect", 1], ["send", 1, "USER u1"], ["send", 1, "PASS pw1"]], 2: [["connect", 2], ["send", 2, "USER u2"]],
             3: [["connect", 3], ["send", 3, "USER anonymous"]]}
    args = {"CWD": {1: "d", 2: "/h", 3: "/"}, "DELE": {1: "f", 2: "f", 3: "pub"}, "RMD": {1: "d/e", 2: "/h", 3: "/"}, "MKD": {1: "zz", 2: "zz", 3: "zz"},
            "RNFR": {1: "f", 2: "f", 3: "pub"}, "MLST": {1: "d", 2: "f", 3: "pub"}, "RETR": {1: "f", 2: "f", 3: "pub"}, "STOR": {1: "nn", 2: "nn", 3: "nn"}, "APPE": {1: "f", 2: "f", 3: "pub"}}
    out = []
    for a, b in ((1, 2), (2, 1), (1, 3), (3, 1)):
        for verb, ar in args.items():
            for j in (1, 2, 3, 4):
                def cmd(s):
                    if verb in ("RETR", "STOR", "APPE"):
                        return [["send", s, "EPSV"], ["dconnect", s], ["send", s, verb + " " + ar[s]]] + ([["dsend", s, [40 + s]]] if verb != "RETR" else []) + [["deof", s]]
                    return [["send", s, verb + " " + ar[s]]]
                ca, cb = cmd(a), cmd(b)
                k = 2 if verb in ("RETR", "STOR", "APPE") else 0
                st = login[a] + login[b] + ca[:k] + [["gate", a, None, j], ca[k]] + cb + [["release", a]] + ca[k + 1:] + [["send", a, "PWD"], ["send", b, "PWD"],
                     ["send", a, "MLST " + ar[a]], ["send", b, "MLST " + ar[b]]]
                out.append(st)
    return out


def same_user():
    """Two (three) sessions of one account, each in its own working directory, sending the same relative arguments turn by turn -
    plainly, and with the first one's backend call held while the other's whole command runs."""
    out = []
    homes = {1: "d", 2: None, 3: "d/e"}
    cmds = ["MLST g", "MLST f", "CWD .", "PWD", "MKD zz", "MLST zz", "RNFR g", "RNTO g2", "DELE f", "MLST f", "CDUP", "PWD", "MLST e"]
    for sess in ((1, 2), (2, 1), (1, 3), (1, 2, 3)):
        st = []
        for s in sess:
            st += [["connect", s], ["send", s, "USER u1"], ["send", s, "PASS pw1"]] + ([["send", s, "CWD " + homes[s]]] if homes[s] else [])
        plain = list(st)
        for c in cmds:
            for s in sess:
                plain.append(["send", s, c])
        out.append(plain)
        for j in (1, 2):
            held = list(st)
            a, b = sess[0], sess[1]
            for c in cmds:
                if c.split()[0] in ("MLST", "CWD", "MKD", "DELE", "RNFR", "RNTO", "CDUP"):
                    held += [["gate", a, None, j], ["send", a, c], ["send", b, c], ["release", a]]
                else:
                    held += [["send", a, c], ["send", b, c]]
            out.append(held)
        # transfers: the same relative name, different bytes
        xs = list(st)
        for s in sess:
            xs += gen.transfer(s, "STOR", "n", data=[50 + s, 60 + s])
        for s in sess:
            xs += gen.transfer(s, "RETR", "n")
        for s in sess:
            xs += gen.transfer(s, "APPE", "n", data=[70 + s])
        for s in reversed(sess):
            xs += gen.transfer(s, "RETR", "n") + [["send", s, "MLST n"]]
        out.append(xs)
    return out


def slow_logins():
    """A user manager whose account lookup and password check take a few loop iterations: while one session's USER or PASS is being
    answered, another session logs in, logs in again or sends anything else - each login ends as it would alone."""
    out = []
    other = [[["send", 2, "USER u2"]], [["send", 2, "USER u1"]], [["send", 2, "USER u1"], ["send", 2, "PASS pw1"]], [["send", 2, "USER nobody"]],
             [["send", 2, "PWD"]], [["send", 2, "USER u2"], ["send", 2, "USER u2"]]]
    for mine in ([["send", 1, "USER u1"], ["nq", ["send", 1, "PASS pw1"]]], [["send", 1, "USER u1"], ["nq", ["send", 1, "PASS nope"]]],
                 [["nq", ["send", 1, "USER u2"]]], [["send", 1, "USER u2"], ["nq", ["send", 1, "USER u1"]]]):
        for oth in other:
            for gap in (0, 1, 2, 3):
                st = [["connect", 1], ["connect", 2]] + mine + [["iter", gap]] + [["nq", x] for x in oth[:1]] + [["tick", 0]] + oth[1:]
                st += [["send", 1, "PWD"], ["send", 2, "PWD"], ["send", 1, "MLST f"], ["send", 2, "MLST f"]]
                out.append(st)
    return out


TWIN_USERS = [
    {"id": "u1", "login": "u1", "pw": "pw1", "max": 0, "perms": [], "home": [], "base": ["A"]},
    {"id": "u2", "login": "u2", "pw": "", "max": 0, "perms": [], "home": [], "base": ["B"]},
]
TWIN_TREE = {"d": [["A"], ["A", "d"], ["B"], ["B", "d"]], "f": [{"p": ["A", "f"], "c": [1, 2, 3]}, {"p": ["B", "f"], "c": [8, 9]}, {"p": ["A", "d", "g"], "c": [4]}, {"p": ["B", "d", "g"], "c": [5, 6]}]}


def same_virtual_names():
    """Two accounts with different base directories and the *same* virtual names: one session's command is held in its j-th backend
    call (path checks, open, write, close) while the other session runs the same command on the same virtual path to its end."""
    out = []
    login = {1: [["connect", 1], ["send", 1, "USER u1"], ["send", 1, "PASS pw1"]], 2: [["connect", 2], ["send", 2, "USER u2"]]}
    for a, b in ((1, 2), (2, 1)):
        for verb, arg in (("STOR", "nn"), ("STOR", "f"), ("APPE", "f"), ("APPE", "d/g"), ("RETR", "f"), ("DELE", "f"), ("MKD", "zz"), ("RMD", "d"), ("RNFR", "f")):
            for j in (1, 2, 3, 4, 5):
                def cmd(s, early):
                    if verb in ("RETR", "STOR", "APPE"):
                        data = [["dsend", s, [40 + s, 50 + s]]] if verb != "RETR" else []
                        return [["send", s, "EPSV"], ["dconnect", s]] + (data if early else []) + [["send", s, verb + " " + arg]] + ([] if early else data) + [["deof", s]]
                    return [["send", s, verb + " " + arg]]
                ca, cb = cmd(a, True), cmd(b, False)
                k = next(i for i, x in enumerate(ca) if x[0] == "send" and x[2].startswith(verb))
                st = login[a] + login[b] + ca[:k] + [["gate", a, None, j], ca[k]] + cb + [["release", a]] + ca[k + 1:]
                st += [["send", a, "MLST " + arg], ["send", b, "MLST " + arg]]
                out.append(st)
    return out


def abandoned_logins():
    """One session attaches itself to a limited account and goes away without completing the login (disconnect, QUIT, wrong
    password, reset, USER of another account); another session of that account then logs in as if the first had never been."""
    out = []
    for acct, pw in (("u1", "pw1"), ("u2", None), ("u3", None)):
        for how in ([["vanish", 1]], [["send", 1, "QUIT"]], [["send", 1, "PASS nope"], ["vanish", 1]], [["vanish", 1, "reset"]], [["send", 1, "USER anonymous"]],
                    [["send", 1, "PASS nope"], ["send", 1, "QUIT"]]):
            for rounds in (1, 2):
                st = []
                for _ in range(rounds):
                    st += [["connect", 1], ["send", 1, "USER " + acct]] + how
                    if how[-1][0] == "send" and how[-1][2].startswith("USER"):
                        st += [["send", 1, "QUIT"]]
                st += [["connect", 2], ["send", 2, "USER " + acct]] + ([["send", 2, "PASS " + pw]] if pw else []) + [["send", 2, "PWD"], ["send", 2, "MLST f"]]
                out.append(st)
    return out


def dev_cfg(pool):
    return gen.std_cfg(ns=3)


def run(tier, seed):
    chk = report.Check("C17", tier, seed)
    rng = random.Random(seed)
    mc.into(chk, mc.run_config("MC_Res_q", "MC_Res", must_cover=("ReplyEv", "CtlClose")))
    mc.into(chk, mc.run_config("MC_Iso_q" if tier == "quick" else "MC_Iso_t", "MC_Iso", must_cover=("ReplyEv", "WorkerStep")))
    fam = families(tier, rng)
    cfg = gen.std_cfg(ns=3)
    scheds = [x[2] for _, x in fam]
    out = corecheck.validate(chk, cfg, gen.STD_TREE, scheds, label="interleaved")
    # differential clause of the statement: each session's replies and data equal those of its solo run
    solo_jobs, index = [], []
    for i, (_, (scr, sess, _)) in enumerate(fam):
        for s in sess:
            solo_jobs.append((cfg, gen.STD_TREE, scr[s]))
            index.append((i, s))
    solos = corecheck.run_many(solo_jobs)
    diffs = 0
    for (i, s), solo in zip(index, solos):
        a = transcript(out[i][1], s)
        b = transcript(solo, s)
        chk.cov["evaluations"] += 1
        # listings carry modification times of other sessions' files only if paths overlap - they do not
        if a != b and "list" not in repr(fam[i][1][0][s]).lower() and "mlsd" not in repr(fam[i][1][0][s]).lower():
            diffs += 1
            chk.violation({"at": "solo-differential", "session": s}, {"interleaved": a, "solo": b},
                          {"cfg": cfg, "tree": gen.STD_TREE, "schedule": fam[i][1][2], "solo": fam[i][1][0][s]})
        elif a[0] != b[0]:
            diffs += 1
            chk.violation({"at": "solo-differential-replies", "session": s}, {"interleaved": a[0], "solo": b[0]},
                          {"cfg": cfg, "tree": gen.STD_TREE, "schedule": fam[i][1][2], "solo": fam[i][1][0][s]})
    tv = twin_verbs()
    corecheck.validate(chk, cfg, gen.STD_TREE, tv, label="twin-verbs")
    su = same_user()
    corecheck.validate(chk, cfg, gen.STD_TREE, su, label="same-user")
    corecheck.validate(chk, gen.std_cfg(ns=3, backend="async"), gen.STD_TREE, su, label="same-user:async")
    from checks import c10
    corecheck.validate(chk, gen.std_cfg(ns=2, users=c10.USERS), gen.STD_TREE, abandoned_logins(), label="abandoned-logins")
    sv = same_virtual_names()
    for b in ("memory", "path"):
        corecheck.validate(chk, gen.std_cfg(ns=2, users=TWIN_USERS, backend=b), TWIN_TREE, sv if tier != "quick" else sv[::2], label="same-virtual-names:" + b)
    sl = slow_logins()
    for tag, extra in (("auth", {"slow_auth": 4}), ("both", {"slow_auth": 3, "slow_user": {"*": 2}})):
        corecheck.validate(chk, gen.std_cfg(ns=2, **extra), gen.STD_TREE, sl, label="slow-logins:" + tag)
    lk = lookers()
    corecheck.validate(chk, cfg, gen.STD_TREE, lk, label="lookers")
    if tier != "quick":
        corecheck.validate(chk, gen.std_cfg(ns=3, backend="async"), gen.STD_TREE, lk, label="lookers:async")
    chk.cov["rule"] = ("2-3 scripted sessions of different users on disjoint subtrees, seeded interleavings of their steps with "
                       "backend calls of one session held while the others run, one session possibly vanishing mid-way; every "
                       "interleaved execution must be a behaviour of the multi-session specification, and each session's reply "
                       "codes and received data must equal those of its solo run; a session's MLST/MLSD/LIST held in its j-th backend call "
                       "while another session looks at its own file; distinct = distinct interleavings")
    chk.cov["distinct_nontrivial"] = len({repr(s) for s in scheds})
    chk.notes["solo_differential_pairs"] = len(index)
    chk.sample(scheds[0])
    return chk.finish()
