"""C09 - client tree operations (upload, download, recursive list, remove) are faithful."""
import itertools
import json
import pathlib
import random

import aioftp

from harness import clientdrv, corecheck, gen, judge, report
from harness import world as W

# source trees: entries relative to the source root (root = [] is a directory, or a single file)
def shapes():
    leafs = [("f", [1, 2, 3]), ("f", []), ("d", None)]
    out = []
    out.append([([], "f", [9, 8, 7])])                      # a single file
    out.append([([], "f", [])])                             # an empty file
    out.append([([], "d", None)])                           # an empty directory
    names = ["a", "b"]
    for k1 in leafs:
        out.append([([], "d", None), (["a"], k1[0], k1[1])])
    for k1, k2 in itertools.product(leafs, repeat=2):
        out.append([([], "d", None), (["a"], k1[0], k1[1]), (["b"], k2[0], k2[1])])
    # depth 2, same names on different levels
    for k in leafs:
        out.append([([], "d", None), (["a"], "d", None), (["a", "a"], k[0], k[1])])
        out.append([([], "d", None), (["a"], "d", None), (["a", "a"], k[0], k[1]), (["a", "b"], "f", [5]), (["b"], "f", [6, 6])])
    out.append([([], "d", None), (["a"], "d", None), (["a", "a"], "d", None), (["a", "b"], "d", None), (["b"], "d", None)])
    # depth 3 and 4: content of directories below the first level, equal names on every level
    out.append([([], "d", None), (["a"], "d", None), (["a", "b"], "d", None), (["a", "b", "f"], "f", [1])])
    out.append([([], "d", None), (["a"], "d", None), (["a", "a"], "d", None), (["a", "a", "a"], "f", [2, 2]), (["a", "f"], "f", [3]), (["f"], "f", [])])
    out.append([([], "d", None), (["a"], "d", None), (["a", "b"], "d", None), (["a", "b", "c"], "d", None), (["a", "b", "c", "f"], "f", [4]),
                (["a", "b", "e"], "d", None), (["b"], "d", None), (["b", "b"], "f", [5, 5])])
    return out


def ent(p, k, c):
    return {"p": list(p), "k": k, "c": list(c or [])}


def tree_entries(snapshot, base):
    """world snapshot -> entries below base (relative)"""
    out = []
    nb = len(base)
    for d in snapshot["d"]:
        if d[:nb] == base and len(d) > nb:
            out.append(ent(d[nb:], "d", None))
    for f in snapshot["f"]:
        if f["p"][:nb] == base:
            out.append(ent(f["p"][nb:], "f", f["c"]))
    return out


async def local_fill(pio, root, entries):
    for p, k, c in sorted(entries, key=lambda e: len(e[0])):
        path = root.joinpath(*p) if p else root
        if k == "d":
            await pio.mkdir(path, parents=True, exist_ok=True)
        else:
            await pio.mkdir(path.parent, parents=True, exist_ok=True)
            f = await pio._open(path, "wb")
            await pio.write(f, bytes(c))
            await pio.close(f)


def mem_entries(pio):
    from harness import spyfs
    snap = spyfs.snapshot_memory(pio.state, "/")
    out = []
    for k, v in snap.items():
        out.append(ent(k, "d" if v[0] == "d" else "f", v[1] if v[0] == "f" else None))
    return out


def run_case(c):
    users = [{"id": "u1", "login": "u1", "pw": "", "max": 0, "perms": [], "home": [], "base": ["R"]}]
    server_kw = {}
    cfg = gen.std_cfg(ns=1, users=users, block=c["block"])
    remote_pre = {"d": [["R"], ["R", "w"]] + [["R"] + e["p"] for e in c["remote_pre"] if e["k"] == "d"],
                  "f": [{"p": ["R"] + e["p"], "c": e["c"]} for e in c["remote_pre"] if e["k"] == "f"]}
    rec = {"op": c["op"], "ok": True}

    async def sc(factory, w):
        cl = factory(path_io_factory=aioftp.MemoryPathIO)
        if c["fallback"]:
            w.server.commands_mapping.pop("mlsd")
            w.server.commands_mapping.pop("mlst")
        await cl.connect("127.0.0.1", W.CTL_PORT)
        await cl.login("u1", "x")
        try:
            # earlier operations of the same client session (what an operation does must not depend on them)
            for pr in c.get("prior", []):
                await cl.change_directory("/" + "/".join(pr["cwd"]))
                if pr["op"] == "upload":
                    await local_fill(cl.path_io, pathlib.Path("/loc/" + c["srcname"]), [(e["p"], e["k"], e["c"]) for e in c["src"]])
                    await cl.upload(pathlib.Path("/loc/" + c["srcname"]), pr["dest"], write_into=pr["write_into"], block_size=c["block"])
                elif pr["op"] == "remove":
                    await cl.remove(pr["dest"])
                elif pr["op"] == "list":
                    await cl.list(pr["dest"], recursive=True)
            if c.get("prior"):
                rec["remote_mid"] = tree_entries(w.snapshot(), ["R"])
        except Exception as e:  # noqa
            rec["ok"] = False
            rec["error"] = "prior: " + repr(e)
        if c["cwd"] or c.get("prior"):
            await cl.change_directory("/" + "/".join(c["cwd"]))
        try:
            if c["op"] == "upload":
                await local_fill(cl.path_io, pathlib.Path("/loc/" + c["srcname"]), [(e["p"], e["k"], e["c"]) for e in c["src"]])
                await cl.upload(pathlib.Path("/loc/" + c["srcname"]), c["dest"], write_into=c["write_into"], block_size=c["block"])
            elif c["op"] == "download":
                await local_fill(cl.path_io, pathlib.Path("/lw"), [([], "d", None)] + [(e["p"], e["k"], e["c"]) for e in c["local_pre"]])
                cl.path_io.cwd = pathlib.PurePosixPath("/lw")
                await cl.download(c["source"], c["dest"], write_into=c["write_into"], block_size=c["block"])
                rec["local_post"] = [e for e in mem_entries(cl.path_io) if e["p"][:1] == ["lw"]]
            elif c["op"] == "list":
                rec["listed"] = [{"p": list(p.parts[1:] if p.is_absolute() else p.parts), "k": "d" if i["type"] == "dir" else "f", "abs": p.is_absolute()}
                                 for p, i in await cl.list(c["dest"], recursive=True)]
            elif c["op"] == "remove":
                await cl.remove(c["dest"])
        except Exception as e:  # noqa
            rec["ok"] = False
            rec["error"] = repr(e)
        await cl.quit()

    out = clientdrv.run_clients(cfg, remote_pre, {1: sc})
    if out["crash"]:
        return {"crash": out["crash"]}
    rec["hang"] = out["hang"]
    rec["exc"] = {k: repr(v) for k, v in out["exc"].items()}
    rec["remote_post"] = tree_entries(out["final_tree"], ["R"])
    return {"crash": None, "rec": rec}


def parse(dest):
    return dest.startswith("/"), [x for x in dest.split("/") if x not in ("", ".")]


def gen_cases(tier, rng):
    cases = []
    sh = shapes()
    dests = ["", "d", "d/e", "/d/e"]
    pre_variants = [[], [ent(["sib"], "f", [4, 4])]]
    for src in sh:
        entries = [ent(p, k, c) for p, k, c in src]
        for dest, wi, cwd in itertools.product(dests, (False, True), ([], ["w"])):
            if tier == "quick" and rng.random() < 0.6:
                continue
            if wi and dest == "" and True:
                # write_into an empty destination = the working directory itself: only meaningful for directories
                if entries[0]["k"] == "f":
                    continue
            pre = rng.choice(pre_variants)
            cases.append({"op": "upload", "src": entries, "srcname": "srcname", "dest": dest, "write_into": wi, "cwd": cwd,
                          "remote_pre": pre, "block": rng.choice([2, 8192]), "fallback": rng.random() < 0.3})
            # download: the same tree lives on the server under /w/srcname or /srcname
            place = (cwd or []) + ["srcname"]
            rpre = pre + [ent(place + e["p"], e["k"], e["c"]) for e in entries]
            cases.append({"op": "download", "src": entries, "srcname": "srcname", "source": "srcname", "dest": dest.lstrip("/") if dest.startswith("/") else dest,
                          "write_into": wi, "cwd": cwd, "remote_pre": rpre, "local_pre": rng.choice(pre_variants),
                          "block": rng.choice([2, 8192]), "fallback": rng.random() < 0.3})
    # session histories: the same client has already uploaded (elsewhere, or here and removed it again) or listed before the
    # measured upload; placement must not depend on that
    for src in sh[3:] if tier != "quick" else rng.sample(sh[3:], 8):
        entries = [ent(p, k, c) for p, k, c in src]
        for dest, wi in (("d", False), ("d/e", True), ("d/e", False), ("", False)):
            for cwd in ([], ["w"]):
                for hist in ("elsewhere", "removed", "listed"):
                    if tier == "quick" and rng.random() < 0.5:
                        continue
                    if hist == "elsewhere":
                        prior = [{"cwd": ["v"], "op": "upload", "dest": dest, "write_into": wi}]
                    elif hist == "removed":
                        top = (parse(dest)[1] or ["srcname"])[0]
                        prior = [{"cwd": cwd, "op": "upload", "dest": dest, "write_into": wi}, {"cwd": cwd, "op": "remove", "dest": top}]
                    else:
                        prior = [{"cwd": ["v"], "op": "list", "dest": ""}]
                    cases.append({"op": "upload", "src": entries, "srcname": "srcname", "dest": dest, "write_into": wi, "cwd": cwd, "prior": prior,
                                  "remote_pre": [ent(["v"], "d", None)], "block": 8192, "fallback": rng.random() < 0.3})
    # listing / removing / downloading after earlier operations of the same session (nothing remembered from before)
    for src in (sh[3:] if tier != "quick" else rng.sample(sh[3:], 5)):
        entries = [ent(p, k, c) for p, k, c in src]
        if entries[0]["k"] != "d":
            continue
        for cwd in ([], ["w"]):
            place = cwd + ["t"]
            rpre = [ent(["v"], "d", None), ent(["v", "t"], "d", None), ent(["v", "t", "zz"], "f", [7])] + [ent(place + e["p"], e["k"], e["c"]) for e in entries]
            for op in ("list", "remove", "download"):
                for hist in ("listed-elsewhere", "listed-here", "removed-elsewhere"):
                    if tier == "quick" and rng.random() < 0.5:
                        continue
                    prior = {"listed-elsewhere": [{"cwd": ["v"], "op": "list", "dest": "t"}], "listed-here": [{"cwd": cwd, "op": "list", "dest": "t"}],
                             "removed-elsewhere": [{"cwd": ["v"], "op": "remove", "dest": "t"}]}[hist]
                    base = {"cwd": cwd, "prior": prior, "remote_pre": rpre, "block": 8192, "fallback": rng.random() < 0.3, "src": entries, "srcname": "t"}
                    if op == "download":
                        cases.append(dict(base, op="download", source="t", dest="", write_into=False, local_pre=[]))
                    else:
                        cases.append(dict(base, op=op, dest="t"))
    for src in sh:
        entries = [ent(p, k, c) for p, k, c in src]
        if entries[0]["k"] != "d":
            continue
        for cwd in ([], ["w"]):
            place = cwd + ["t"]
            rpre = [ent(["sib"], "f", [1])] + [ent(place + e["p"], e["k"], e["c"]) for e in entries]
            for given in ("t", "/" + "/".join(place), "./t", "", "/", "/w"):
                for fb in (False, True):
                    cases.append({"op": "list", "dest": given, "cwd": cwd, "remote_pre": rpre, "block": 8192, "fallback": fb})
            # a tree directly below the root, addressed absolutely from another working directory (on a server without MLST the
            # client finds out what it is by listing the root)
            rtop = [ent(["sib"], "f", [1])] + [ent(["t"] + e["p"], e["k"], e["c"]) for e in entries]
            for fb in (False, True):
                cases.append({"op": "remove", "dest": "/t", "cwd": ["w"], "remote_pre": rtop, "block": 8192, "fallback": fb})
                cases.append({"op": "list", "dest": "/t", "cwd": ["w"], "remote_pre": rtop, "block": 8192, "fallback": fb})
            for given in ("t", "/" + "/".join(place), "t/a"):
                cases.append({"op": "remove", "dest": given, "cwd": cwd, "remote_pre": rpre, "block": 8192, "fallback": rng.random() < 0.3})
    return cases


def to_judge(c, rec):
    base = {"op": c["op"], "ok": rec["ok"] and not rec["hang"] and not rec["exc"], "cwd": c["cwd"], "write_into": c.get("write_into", False)}
    std_pre = [ent(["w"], "d", None)] + c["remote_pre"]
    if "remote_mid" in rec:
        std_pre = rec["remote_mid"]
    if c["op"] == "upload":
        a, s = parse(c["dest"])
        base.update({"dabs": a, "dsegs": s, "srcname": c["srcname"], "src": c["src"], "pre": std_pre, "post": rec["remote_post"]})
    elif c["op"] == "download":
        a, s = parse(c["dest"])
        base.update({"dabs": False, "dsegs": s, "srcname": c["srcname"], "src": c["src"], "cwd": ["lw"],
                     "pre": [ent(["lw"], "d", None)] + [ent(["lw"] + e["p"], e["k"], e["c"]) for e in c["local_pre"]],
                     "post": rec.get("local_post", [])})
    elif c["op"] == "list":
        a, s = parse(c["dest"])
        given = [x for x in c["dest"].split("/") if x not in ("",)]
        # paths are reported under the directory as it was given (pathlib normalises './t' to 't')
        given = list(pathlib.PurePosixPath(c["dest"]).parts)
        given = given[1:] if c["dest"].startswith("/") else given
        base.update({"dabs": a, "dsegs": s, "given": given, "pre": std_pre,
                     "listed": [{"p": e["p"], "k": e["k"]} for e in rec.get("listed", [])]})
    else:
        a, s = parse(c["dest"])
        base.update({"dabs": a, "dsegs": s, "pre": std_pre, "post": rec["remote_post"]})
    return base


def run(tier, seed):
    chk = report.Check("C09", tier, seed)
    rng = random.Random(seed)
    cases = gen_cases(tier, rng)
    results = corecheck.pool().map(run_case, cases, chunksize=8)
    for r in results:
        if r["crash"]:
            raise RuntimeError("harness failure: " + r["crash"])
    jc = [to_judge(c, r["rec"]) for c, r in zip(cases, results)]
    chk.cov["evaluations"] += len(cases)
    bad = judge.judge("ClientTree", jc, chk, chunk=3000)
    for i in sorted(bad):
        c = cases[i]
        src_is_dir = c.get("src", [{}])[0].get("k") == "d" if c["op"] in ("upload", "download") else None
        ndest = len(parse(c["dest"])[1])
        sig = {"at": c["op"], "source_is_dir": src_is_dir, "write_into": c.get("write_into"), "dest_components": min(ndest, 2),
               "fallback": c["fallback"]}
        chk.violation(sig, {"case": c, "record": results[i]["rec"], "judged": jc[i]}, {"case": c})
    chk.cov["traces_validated_against_impl"] = len(cases)
    chk.cov["rule"] = ("source trees of depth <= 4 (exhaustive leaf kinds to depth 2, selected shapes deeper) and fan-out <= 2 (files, empty files, empty directories, equal names on different "
                       "levels) x destinations '', 'd', 'd/e', '/d/e', 'w/x/../y' x write_into x client working directory x pre-existing "
                       "content x block size x MLSD / LIST-fallback server, through the real Client.upload / download / "
                       "list(recursive=True) / remove against the real server; ClientTree.tla in TLC computes the expected tree "
                       "(or multiset of listed paths) and compares structure and contents; distinct = distinct cases")
    chk.cov["distinct_nontrivial"] = len({json.dumps(c, sort_keys=True) for c in cases})
    chk.sample(cases[3])
    return chk.finish()
