"""C11 - the passive data-port pool neither loses nor duplicates ports."""
import random

from harness import corecheck, gen, mc, report

USERS = [u for u in gen.STD_USERS]


def rand_schedule(rng, ns, n):
    st = []
    for s in range(1, ns + 1):
        st += [["connect", s], ["send", s, "USER u2"]]
    for _ in range(n):
        s = rng.randrange(1, ns + 1)
        r = rng.random()
        if r < 0.35:
            st.append(["send", s, rng.choice(["PASV", "EPSV"])])
        elif r < 0.45:
            st.append(["lgate", s, rng.choice(["prebind", "postbind"])])
            st.append(["send", s, rng.choice(["PASV", "EPSV"])])
            k = rng.random()
            if k < 0.4:
                st.append(["vanish", s])
            elif k < 0.5:
                st.append(["srvclose"])
            st.append(["lrelease", s])
        elif r < 0.6:
            st += [["dconnect", s], ["send", s, "LIST"], ["deof", s]]
        elif r < 0.7:
            st.append(["send", s, "QUIT"])
        elif r < 0.8:
            st.append(["vanish", s])
        elif r < 0.9:
            st += [["connect", s], ["send", s, "USER u2"]]
        elif r < 0.96:   # USER again inside the session (same or another account): listener and port stay the session's
            st.append(["send", s, "USER " + rng.choice(["u2", "u2", "anonymous", "nobody"])])
        else:
            st.append(["send", s, "PWD"])
    r = rng.random()
    if r < 0.3:
        st.append(["srvclose"])
    else:
        for s in range(1, ns + 1):
            st.append(["vanish", s] if rng.random() < 0.5 else ["send", s, "QUIT"])
    return st


def families(tier, rng):
    n = 300 if tier == "quick" else 4000
    return [("rand", rand_schedule(rng, 3, rng.choice([8, 14, 24]))) for _ in range(n)]


def startup_races():
    """The session ends (peer gone, reset, QUIT, server.close()) a given number of loop iterations after PASV / EPSV was sent - at
    every scheduling point of the listener start-up, not only where it can be held; then the whole pool is asked for again."""
    out = []
    again = [["connect", 2], ["send", 2, "USER u2"], ["send", 2, "PASV"], ["connect", 3], ["send", 3, "USER u2"], ["send", 3, "EPSV"], ["srvclose"]]
    for cmd in ("PASV", "EPSV"):
        for end in (["vanish", 1], ["vanish", 1, "reset"], ["srvclose"]):
            for a in range(0, 14):
                for pre in ([], [["send", 1, "PASV"], ["dconnect", 1], ["send", 1, "LIST"], ["deof", 1]]):
                    out.append([["connect", 1], ["send", 1, "USER u2"]] + pre + [["nq", ["send", 1, cmd]], ["iter", a], ["nq", end], ["tick", 0]]
                               + (again if end != ["srvclose"] else []))
    return out


def pipelined_passive():
    """PASV / EPSV sent again before the first one is answered (both lines in one segment, or a few loop iterations apart): one
    listener per session, one port taken, and it goes back when the session ends."""
    out = []
    for a in ("PASV", "EPSV"):
        for b in ("PASV", "EPSV", "EPSV 1"):
            for gap in (0, 1, 2, 3, 5):
                for end in ([["send", 1, "QUIT"]], [["vanish", 1]], [["dconnect", 1], ["send", 1, "LIST"], ["deof", 1], ["send", 1, "QUIT"]], [["srvclose"]]):
                    out.append([["connect", 1], ["send", 1, "USER u2"], ["nq", ["send", 1, a]], ["iter", gap], ["nq", ["send", 1, b]], ["tick", 0]] + end
                               + ([["connect", 2], ["send", 2, "USER u2"], ["send", 2, "PASV"], ["connect", 3], ["send", 3, "USER u2"], ["send", 3, "EPSV"]]
                                  if end[-1][0] != "srvclose" else []))
    return out


def slow_logout_sessions():
    """A user manager whose logout notification takes a few loop iterations; the session (holding a listener and its port) ends
    and server.close() arrives while it is being torn down: the port still goes back."""
    out = []
    for cmd in ("PASV", "EPSV"):
        for end in (["vanish", 1], ["send", 1, "QUIT"], ["vanish", 1, "reset"]):
            for a in range(0, 10):
                out.append([["connect", 1], ["send", 1, "USER u2"], ["send", 1, cmd], ["nq", end], ["iter", a], ["nq", ["srvclose"]], ["tick", 0]])
            out.append([["connect", 1], ["send", 1, "USER u2"], ["send", 1, cmd], end, ["connect", 2], ["send", 2, "USER u2"], ["send", 2, "PASV"],
                        ["send", 2, "USER u2"], ["send", 2, "QUIT"], ["connect", 3], ["send", 3, "USER u2"], ["send", 3, "EPSV"], ["srvclose"]])
    return out


def pipelined_passive_races():
    """... and the session ends (peer gone, reset, server.close()) a given number of loop iterations after the two passive commands:
    while the first listener is being opened and the second command waits for it."""
    out = []
    again = [["connect", 2], ["send", 2, "USER u2"], ["send", 2, "PASV"], ["connect", 3], ["send", 3, "USER u2"], ["send", 3, "EPSV"], ["srvclose"]]
    for a, b in (("PASV", "PASV"), ("PASV", "EPSV"), ("EPSV", "PASV"), ("EPSV", "EPSV")):
        for end in (["vanish", 1], ["vanish", 1, "reset"], ["srvclose"]):
            for k in range(0, 12):
                out.append([["connect", 1], ["send", 1, "USER u2"], ["nq", ["send", 1, a]], ["nq", ["send", 1, b]], ["iter", k], ["nq", end], ["tick", 0]]
                           + (again if end != ["srvclose"] else []))
            # the first start-up held at one of its gates, so that the second command is certainly waiting when the end comes
            for point in ("prebind", "postbind"):
                for k in (0, 2, 5):
                    out.append([["connect", 1], ["send", 1, "USER u2"], ["lgate", 1, point], ["nq", ["send", 1, a]], ["iter", 4], ["nq", ["send", 1, b]], ["iter", 6 + k],
                                ["nq", end], ["iter", 3], ["lrelease", 1], ["tick", 0]] + (again if end != ["srvclose"] else []))
    return out


PLANS = [
    ([3001, 3002], {}),
    ([3001, 3002], {"3001": "inuse"}),
    ([3001, 3002], {"3001": ["inuse", "ok"], "3002": ["ok", "inuse", "ok"]}),
    ([3001, 3002], {"3001": "inuse", "3002": "inuse"}),
    ([3001, 3002], {"3001": ["err", "ok"], "3002": ["ok", "err", "inuse", "ok"]}),
    ([3001], {"3001": ["ok", "inuse", "inuse", "ok"]}),
    ([3001, 3002, 3003], {"3002": ["inuse", "inuse", "ok"], "3003": ["err", "ok"]}),
    ([], {}),
]


def dev_cfg(pool):
    return gen.std_cfg(ns=3, usepool=True, ports=[3001, 3002], port_plan={"3001": ["inuse", "ok"], "3002": ["ok", "err", "inuse", "ok"]})


def run(tier, seed):
    chk = report.Check("C11", tier, seed)
    rng = random.Random(seed)
    mc.into(chk, mc.run_config("MC_Res_q", "MC_Res", must_cover=("ReplyEv", "CtlClose", "LsnTry", "LsnBound", "ServerStep")))
    if tier != "quick":
        mc.into(chk, mc.run_config("MC_Res_t", "MC_Res"))
        mc.into(chk, mc.run_config("MC_Res_t2", "MC_Res"))
    fam = families(tier, rng)
    scheds = [s for _, s in fam]
    plans = PLANS if tier != "quick" else PLANS[:3] + PLANS[4:6] + PLANS[7:]
    for ports, plan in plans:
        cfg = gen.std_cfg(ns=3, usepool=True, ports=ports, port_plan=plan)
        corecheck.validate(chk, cfg, gen.STD_TREE, scheds, label="pool%d:%s" % (len(ports), sorted(plan.items())))
    sr = startup_races()
    for ports, plan in (([3001, 3002], {}), ([3001], {}), ([3001, 3002], {"3001": ["inuse", "ok"]}), ([], {})):
        cfg = gen.std_cfg(ns=3, usepool=bool(ports), ports=ports, port_plan=plan)
        corecheck.validate(chk, cfg, gen.STD_TREE, sr, label="startup-race:pool%d:%s" % (len(ports), sorted(plan.items())))
    pp = pipelined_passive()
    for ports, plan in (([3001, 3002], {}), ([3001, 3002], {"3001": ["inuse", "ok"]}), ([3001], {"3001": ["inuse", "inuse", "ok"]}), ([], {})):
        cfg = gen.std_cfg(ns=3, usepool=bool(ports), ports=ports, port_plan=plan)
        corecheck.validate(chk, cfg, gen.STD_TREE, pp, label="pipelined-passive:pool%d:%s" % (len(ports), sorted(plan.items())))
    so = slow_logout_sessions()
    for k in (2, 6):
        corecheck.validate(chk, gen.std_cfg(ns=3, usepool=True, ports=[3001, 3002], slow_logout=k), gen.STD_TREE, so, label="slow-logout:%d" % k)
    ppr = pipelined_passive_races()
    for ports in ([3001, 3002], []):
        corecheck.validate(chk, gen.std_cfg(ns=3, usepool=bool(ports), ports=ports), gen.STD_TREE, ppr, label="pipelined-passive-race:pool%d" % len(ports))
    scheds = scheds + sr + pp + so + ppr
    # a server listening on an IPv6 address: PASV opens its listener and then has no IPv4 address to give (503, session ended)
    for ports, plan in (([3001, 3002], {}), ([3001], {"3001": ["inuse", "ok"]})):
        cfg = gen.std_cfg(ns=3, usepool=True, ports=ports, port_plan=plan, v6=True)
        corecheck.validate(chk, cfg, gen.STD_TREE, scheds[: len(scheds) // 2], label="v6:pool%d" % len(ports))
    chk.cov["rule"] = ("seeded schedules of PASV/EPSV (first, repeated), transfers, QUIT, vanish, reconnect and server.close() over 3 "
                       "sessions x pool sizes 0..3 x per-port fault plans (EADDRINUSE / other OSError at chosen attempts) x "
                       "cancellation held at each gate of the listener start-up, on IPv4 and IPv6 servers; pool and listeners compared with the model at every "
                       "quiescent instant; distinct = schedules x plans")
    chk.cov["distinct_nontrivial"] = len({repr(s) for s in scheds}) * len(plans)
    chk.sample(scheds[1])
    return chk.finish()
