"""C15 - speed limits bound the cumulative rate, compose, and cost nothing when off."""
import asyncio
import json
import os
import random
import re
import shutil
import tempfile

import aioftp
from aioftp import common
from aioftp.common import StreamThrottle, Throttle, ThrottleStreamIO

from harness import clientdrv, corecheck, gen, judge, mc, report, simnet, tlc, vloop
from harness import world as W

import contextvars
CUR_STREAM = contextvars.ContextVar("verif_stream", default=0)
TICK = 64  # ticks per second: every time and every limit used here is dyadic, so float arithmetic is exact


class Tap:
    """Harness-side wrappers around Throttle.wait / append / limit (no source hooks)."""

    def __init__(self):
        self.traces = {}
        self.order = []
        self.inexact = 0
        self.slack = 0  # bytes other participating streams may have in flight
        self.sys = {}
        self.appends = {}
        self.clients = []

    def ticks(self, x):
        v = x * TICK
        r = round(v)
        if abs(v - r) > 1e-9:
            self.inexact += 1
        return int(r)

    def tr(self, th):
        k = id(th)
        if k not in self.traces:
            lim = th._limit
            tpb = 0
            if lim:
                tpb = TICK / lim
                if abs(tpb - round(tpb)) > 1e-9:
                    self.inexact += 1
                tpb = int(round(tpb))
            self.traces[k] = [{"ev": "Init", "tpb": tpb, "reset": self.ticks(th.reset_rate), "slack": self.slack, "obj": th}]
            self.order.append(k)
        return self.traces[k]

    def install(self):
        tap = self
        self.saved = (Throttle.wait, Throttle.append, Throttle.limit, ThrottleStreamIO.wait, ThrottleStreamIO.append)
        ow, oa, ol, sw, sa = self.saved
        ids = {}

        keep = []

        def sid(stream):
            # (the stream is kept alive: CPython re-uses the id of a collected object, which would make two streams one)
            if id(stream) not in ids:
                keep.append(stream)
            return ids.setdefault(id(stream), len(ids) + 1)

        async def swait(self_, name):
            tok = CUR_STREAM.set(sid(self_))
            try:
                return await sw(self_, name)
            finally:
                CUR_STREAM.reset(tok)

        def sappend(self_, name, data, start):
            # system-level account: every byte any stream moves under a limit of a given level and direction, whichever
            # Throttle object the stream happens to be attached to
            for key, st in self_.throttles.items():
                lim = getattr(st, name).limit
                if lim:
                    a = tap.sys.setdefault((key, name), {"tpb": TICK / lim, "bytes": 0, "units": {}, "t0": start, "t1": start})
                    a["bytes"] += len(data)
                    a["units"][sid(self_)] = max(a["units"].get(sid(self_), 0), len(data))
                    a["t0"] = min(a["t0"], start)
                    a["t1"] = max(a["t1"], common._now())
                    if TICK / lim != a["tpb"]:
                        a["mixed"] = True
                    # ... and the same per owner of the limit, append by append (server-side levels: the level itself;
                    # the client's level: the client the stream belongs to)
                    owner = "srv"
                    if key == "_":
                        owner = next((i for i, c in enumerate(tap.clients) if c.stream is self_ or getattr(self_, "client", None) is c), -1)
                    tap.appends.setdefault((key, name, owner), []).append((start, common._now(), len(data), TICK / lim))
            tok = CUR_STREAM.set(sid(self_))
            try:
                return sa(self_, name, data, start)
            finally:
                CUR_STREAM.reset(tok)

        ThrottleStreamIO.wait = swait
        ThrottleStreamIO.append = sappend
        self._strong = []

        async def wait(self_):
            t = tap.tr(self_)
            k = sum(1 for e in t if e["ev"] == "WaitBegin") + 1
            t.append({"ev": "WaitBegin", "k": k, "te": tap.ticks(common._now()), "strm": CUR_STREAM.get()})
            await ow(self_)
            t.append({"ev": "WaitDone", "k": k, "tx": tap.ticks(common._now())})

        def append(self_, data, start):
            t = tap.tr(self_)
            t.append({"ev": "Append", "t": tap.ticks(common._now()), "ts": tap.ticks(start), "n": len(data), "strm": CUR_STREAM.get()})
            return oa(self_, data, start)

        def setlimit(self_, value):
            t = tap.tr(self_)
            tpb = int(round(TICK / value)) if value else 0
            t.append({"ev": "SetLimit", "t": tap.ticks(common._now()), "tpb": tpb})
            ol.fset(self_, value)

        Throttle.wait = wait
        Throttle.append = append
        Throttle.limit = property(ol.fget, setlimit)

    def remove(self):
        Throttle.wait, Throttle.append, Throttle.limit, ThrottleStreamIO.wait, ThrottleStreamIO.append = self.saved

    def append_bounds(self, reset=10):
        """For every limited I/O: what had been accounted under that limit (by any stream, on any Throttle object) when the I/O
        began fits into the time since the first one began - apart from what other streams had in flight at that moment, the
        first unit, and one byte of rounding per accounting window."""
        out = []
        for (key, name, owner), evs in sorted(self.appends.items(), key=repr):
            # (only where the streams under the limit act one after the other - a client's control and data connections: a wait
            #  that several streams sit in at once ends by the accounting at its *entry*, which Throttle.tla models and this sum does not)
            if key != "_" or owner == -1 or len({e[3] for e in evs}) != 1:
                continue
            tpb = evs[0][3]
            if abs(tpb - round(tpb)) > 1e-9:
                continue
            t0 = evs[0][0]
            for i, (ts, t, n, _) in enumerate(evs):
                # (what was accounted at the very instant this I/O began may stem from streams let through together with it)
                prior = sum(e[2] for e in evs[:i] if e[1] < ts)
                conc = sum(e[2] for e in evs[:i] if e[1] >= ts)
                out.append({"level": "%s:%s:%s@%d" % (key, name, owner, i), "tpb": int(round(tpb)), "bytes": prior, "streams": 1,
                            "block": evs[0][2] + conc + int((ts - t0) // reset) + 1, "dur": self.ticks(ts - t0)})
        return out

    def export(self):
        out = []
        for k in self.order:
            t = self.traces[k]
            out.append([{kk: v for kk, v in e.items() if kk != "obj"} for e in t])
        return out


def api_run(seed):
    """One real Throttle driven through a seeded sequence of waits, I/O durations, idle gaps, limit changes, clones."""
    rng = random.Random(seed)
    loop = vloop.new_loop()
    tap = Tap()
    tap.install()
    try:
        L = rng.choice([8, 16, 32, 64, None, 0])
        th = Throttle(limit=L, reset_rate=rng.choice([0.25, 1, 10]))
        reset = th.reset_rate

        async def run():
            cur = th
            for _ in range(rng.choice([6, 12, 20])):
                r = rng.random()
                gap = rng.choice([0, 0, 1, 3, int(reset * TICK) - 1, int(reset * TICK), int(reset * TICK) + 1, 2 * int(reset * TICK) + 1]) / TICK
                if gap:
                    await asyncio.sleep(gap)
                if r < 0.05:
                    cur.limit = rng.choice([8, 16, 64, None])
                    continue
                if r < 0.1:
                    cur = cur.clone()
                await cur.wait()
                start = common._now()
                d = rng.choice([0, 0, 1, 2, 5, 40]) / TICK
                if d:
                    await asyncio.sleep(d)
                cur.append(b"x" * rng.choice([0, 1, 2, 3, 4, 7, 16]), start)

        loop.run_task(run())
        return tap.export(), tap.inexact
    finally:
        tap.remove()
        loop.shutdown()


def stream_run(seed):
    """1-3 ThrottleStreamIO streams sharing one throttle and each owning others, moving chunks over the simulated network."""
    rng = random.Random(seed)
    loop = vloop.new_loop()
    net = simnet.Net(loop)
    tap = Tap()
    tap.install()
    try:
        shared = StreamThrottle.from_limits(rng.choice([8, 16, 32, None]), rng.choice([8, 32, None]))
        nstreams = rng.choice([1, 2, 3])
        tap.slack = (nstreams - 1) * 16
        srv_streams = []

        async def cb(reader, writer):
            srv_streams.append((reader, writer))

        async def run():
            await net.start_server(cb, "127.0.0.1", 21)
            net.ctl_port = 21
            tasks = []
            for i in range(nstreams):
                r, w = await net.open_connection("127.0.0.1", 21)
                await asyncio.sleep(0)
                own = StreamThrottle.from_limits(rng.choice([8, 16, 64, None]), rng.choice([16, 64, None]))
                # (a stream timeout bounds the read or write itself, never the pause a limit imposes before it)
                st = ThrottleStreamIO(r, w, throttles={"shared": shared, "own": own}, timeout=rng.choice([None, None, 0.0625, 0.375]))
                sr, sw = srv_streams[-1]
                direction = rng.choice(["write", "read"])
                chunks = [rng.choice([1, 2, 4, 7, 16]) for _ in range(rng.choice([3, 6, 10]))]

                async def mover(st=st, sr=sr, sw=sw, direction=direction, chunks=chunks):
                    for n in chunks:
                        if rng.random() < 0.3:
                            await asyncio.sleep(rng.choice([1, 5, 70]) / TICK)
                        if direction == "write":
                            await st.write(b"y" * n)
                        else:
                            sw.write(b"z" * n)
                            await st.read(n)

                tasks.append(asyncio.ensure_future(mover()))
            await asyncio.gather(*tasks)

        try:
            loop.run_task(run())
        except (asyncio.TimeoutError, OSError) as e:   # the stream gave up although its peer never stalled: a verdict, not a harness failure
            return "FAILED:" + type(e).__name__, 0
        return tap.export(), tap.inexact
    finally:
        tap.remove()
        loop.shutdown()


LEVELS = ["server", "server_conn", "user", "user_conn", "client"]


def e2e_run(seed):
    """Real server + real client transfers with limits at a random subset of the five levels."""
    force = None
    if isinstance(seed, tuple):     # (seed, forced parameters): the independence runs below
        seed, force = seed
    rng = random.Random(seed)
    on = {lv: (rng.choice([16, 32, 64]) if rng.random() < 0.4 else None) for lv in LEVELS}
    direction = rng.choice(["up", "down"])
    nclients = rng.choice([1, 2, 3])
    size = rng.choice([8, 24, 40])
    if force:
        on = {lv: (force["limit"] if lv == force["level"] else None) for lv in LEVELS}
        direction, nclients, size = force["direction"], force["clients"], force["size"]
    skw = {}
    ukw = {}
    if direction == "up":
        if on["server"]:
            skw["read_speed_limit"] = on["server"]
        if on["server_conn"]:
            skw["read_speed_limit_per_connection"] = on["server_conn"]
        if on["user"]:
            ukw["read_speed_limit"] = on["user"]
        if on["user_conn"]:
            ukw["read_speed_limit_per_connection"] = on["user_conn"]
        ckw = {"write_speed_limit": on["client"]} if on["client"] else {}
    else:
        if on["server"]:
            skw["write_speed_limit"] = on["server"]
        if on["server_conn"]:
            skw["write_speed_limit_per_connection"] = on["server_conn"]
        if on["user"]:
            ukw["write_speed_limit"] = on["user"]
        if on["user_conn"]:
            ukw["write_speed_limit_per_connection"] = on["user_conn"]
        ckw = {"read_speed_limit": on["client"]} if on["client"] else {}
    users = [{"id": "u1", "login": "u1", "pw": "", "max": 0, "perms": [], "home": [], "base": ["A"], "kwargs": ukw}]
    # a socket timeout much shorter than the pauses the limits impose, on the side that is being limited (the other side, made to
    # wait by it, has none): the timeout is for the peer's silence, not for the limiter's
    tmo = rng.choice([None, None, 250]) if not force else None
    srv_limited = any(on[lv] for lv in LEVELS[:4])
    sock = tmo if tmo and srv_limited and not on["client"] else 0
    if tmo and on["client"] and not srv_limited:
        ckw["socket_timeout"] = tmo / 1000
    cfg = gen.std_cfg(ns=4, users=users, block=8, server_kwargs=skw, sock=sock)
    tree = {"d": [["A"]], "f": [{"p": ["A", "f"], "c": [5] * size}]}
    tap = Tap()
    tap.slack = (2 * nclients - 1) * 64
    tap.install()
    t_end = {}
    try:
        # churn: while the first connection stays logged in, another session of the same user comes and goes (QUIT, or USER again)
        # before the remaining connections log in; the limits shared by the user's connections must still bound their sum
        churn = nclients >= 2 and rng.random() < 0.4 and not force
        churn_how = rng.choice(["quit", "reuser", "vanish"])
        first_in, churned = asyncio.Event(), asyncio.Event()

        async def churner(factory, w):
            await first_in.wait()
            c = factory()
            await c.connect("127.0.0.1", W.CTL_PORT)
            await c.login("u1", "x")
            if churn_how == "quit":
                await c.quit()
            elif churn_how == "reuser":
                await c.login("u1", "x")
                await c.quit()
            else:
                c.close()
            for _ in range(20):
                await asyncio.sleep(0)
            churned.set()

        multi = rng.random() < 0.35 and not force   # several transfers one after the other on each client (a data connection each)
        nx = rng.choice([2, 3, 4]) if multi else 1

        def mk(i):
            async def sc(factory, w):
                c = factory(**ckw)
                tap.clients.append(c)
                if churn and i > 0:
                    await churned.wait()
                await c.connect("127.0.0.1", W.CTL_PORT)
                await c.login("u1", "x")
                if churn and i == 0:
                    first_in.set()
                    await churned.wait()
                for x in range(nx):
                    if direction == "up":
                        async with c.upload_stream("up%d_%d" % (i, x)) as st:
                            for k in range(0, size, 8):
                                await st.write(bytes([7] * min(8, size - k)))
                    else:
                        async with c.download_stream("f") as st:
                            while await st.read(8):
                                pass
                t_end[i] = common._now()
                await c.quit()
            return sc
        scen = {i + 1: mk(i) for i in range(nclients)}
        if churn:
            scen[nclients + 1] = churner
        out = clientdrv.run_clients(cfg, tree, scen)
        if out["crash"]:
            return None, 0, {"error": out["crash"]}
        if out["exc"] or out["hang"]:
            # a transfer between two live peers that failed or never ended: the limiter (or a timeout that took the limiter's pause
            # for the peer's silence) broke it
            return [], 0, {"failed": repr(out["exc"]) or out["hang"], "limits": on, "direction": direction, "clients": nclients, "sock": sock,
                           "any_limit": True, "duration": 0, "bounds": []}
        dur = max(t_end.values()) if t_end else 0
        bounds = []
        for lv in LEVELS:
            if on[lv]:
                shared = lv in ("server", "user")
                bounds.append({"level": lv, "tpb": TICK // on[lv], "bytes": size * nx * (nclients if shared else 1),
                               "streams": (nclients if shared else 1), "block": 8, "dur": int(round(dur * TICK))})
        # the same bound from the limiter's point of view: all bytes (commands and replies included) that any stream moved under
        # a shared level, however the streams were attached to Throttle objects
        for (key, name), a in sorted(tap.sys.items()):
            if key in ("server_global", "user_global") and not a.get("mixed"):
                bounds.append({"level": key + ":" + name, "tpb": int(a["tpb"]), "bytes": a["bytes"], "streams": 1, "block": sum(a["units"].values()),
                               "dur": tap.ticks(a["t1"] - a["t0"])})
        bounds += tap.append_bounds()
        info = {"limits": on, "direction": direction, "clients": nclients, "size": size, "duration": dur, "churn": churn_how if churn else "",
                "transfers_each": nx, "any_limit": any(on.values()), "bounds": bounds}
        return tap.export(), tap.inexact, info
    finally:
        tap.remove()


def relogin_run(seed):
    """One control connection, two accounts with different user-level limits: log in as the first, transfer, log in as the
    second (USER again on the same connection), transfer again.  The second transfer is governed by the second account's limits
    - and by nothing at all if that account has none."""
    rng = random.Random(seed)
    direction = rng.choice(["up", "down"])
    size = rng.choice([24, 40, 64])
    key = "read_speed_limit" if direction == "up" else "write_speed_limit"

    def limits():
        k = {}
        if rng.random() < 0.6:
            k[key] = rng.choice([16, 32, 64])
        if rng.random() < 0.4:
            k[key + "_per_connection"] = rng.choice([16, 32, 64])
        return k
    la, lb = limits(), limits()
    if rng.random() < 0.35:
        lb = {}
    users = [{"id": "u1", "login": "u1", "pw": "", "max": 0, "perms": [], "home": [], "base": ["A"], "kwargs": la},
             {"id": "u2", "login": "u2", "pw": "", "max": 0, "perms": [], "home": [], "base": ["A"], "kwargs": lb}]
    cfg = gen.std_cfg(ns=2, users=users, block=8)
    tree = {"d": [["A"]], "f": [{"p": ["A", "f"], "c": [5] * size}]}
    tap = Tap()
    tap.slack = 64
    tap.install()
    mark = {}
    try:
        async def xfer(c, name):
            if direction == "up":
                async with c.upload_stream(name) as st:
                    for k in range(0, size, 8):
                        await st.write(bytes([7] * min(8, size - k)))
            else:
                async with c.download_stream("f") as st:
                    while await st.read(8):
                        pass

        async def sc(factory, w):
            c = factory()
            await c.connect("127.0.0.1", W.CTL_PORT)
            await c.login("u1", "x")
            await xfer(c, "up1")
            await c.login("u2", "x")
            mark["t1"] = common._now()
            await xfer(c, "up2")
            mark["t2"] = common._now()
            await c.quit()
        out = clientdrv.run_clients(cfg, tree, {1: sc})
        if out["crash"]:
            return None, 0, {"error": out["crash"]}
        if out["exc"] or out["hang"]:
            return [], 0, {"failed": repr(out["exc"]) or out["hang"], "any_limit": True, "duration": 0, "bounds": []}
        dur2 = mark["t2"] - mark["t1"]
        bounds = [{"level": "relogin:" + k, "tpb": TICK // v, "bytes": size, "streams": 1, "block": 8, "dur": int(round(dur2 * TICK))} for k, v in lb.items()]
        info = {"limits": {"first": la, "second": lb}, "direction": direction, "clients": 1, "size": size, "duration": dur2, "churn": "relogin",
                # (a wait begun under the first account's limiter may still end in the second phase: no "costs nothing" claim here)
                "any_limit": True, "bounds": bounds}
        return tap.export(), tap.inexact, info
    finally:
        tap.remove()


def validate(chk, traces, label):
    """Batch trace validation against TraceThrottle; returns list of (index, matched, length) of rejected traces."""
    bad = []
    wd = tempfile.mkdtemp(prefix="verif-c15-")
    try:
        for off in range(0, len(traces), 3000):
            part = traces[off:off + 3000]
            tf = os.path.join(wd, "t.json")
            with open(tf, "w") as fh:
                json.dump(part, fh)
            rc, out, wall = tlc.run("TraceThrottle", "SPECIFICATION TraceSpec\nCONSTRAINT Reached\nPOSTCONDITION Report\nINVARIANT RateBound\nINVARIANT Typed\nCHECK_DEADLOCK FALSE\n",
                                    workdir=wd, env={"TRACE_FILE": tf}, workers=1, timeout=900)
            chk.add_tlc(tlc.stats(out))
            if "RateBound is violated" in out or "Typed is violated" in out:
                m = re.search(r"tid = (\d+)", out[out.find("is violated"):])
                bad.append((off + int(m.group(1)) - 1 if m else off, -1, -1))
                continue
            res = {int(m.group(1)): (int(m.group(2)), int(m.group(3))) for m in re.finditer(r'<<"RES", (\d+), (\d+), (\d+)>>', out)}
            if len(res) != len(part):
                raise RuntimeError("TraceThrottle run failed:\n" + out[-2500:])
            for t, (m, n) in res.items():
                if m < n:
                    bad.append((off + t - 1, m, n))
    finally:
        shutil.rmtree(wd, ignore_errors=True)
    chk.cov["traces_validated_against_impl"] += len(traces)
    return bad


def run(tier, seed):
    chk = report.Check("C15", tier, seed)
    res = mc.run_config("MC_Throttle", "MC_Throttle", coverage=False)
    mc.into(chk, res)
    n_api, n_stream, n_e2e = (400, 200, 120) if tier == "quick" else (6000, 3000, 1500)
    P = corecheck.pool()
    base = seed * 100003
    for label, fn, n in (("api", api_run, n_api), ("stream", stream_run, n_stream)):
        outs = P.map(fn, [base + i for i in range(n)], chunksize=16)
        traces, owner = [], []
        for i, (trs, inexact) in enumerate(outs):
            if isinstance(trs, str):
                chk.violation({"at": label, "event": "stream-gave-up"}, {"why": trs}, {"family": label, "seed": base + i})
                continue
            if inexact:
                raise RuntimeError("non-dyadic time in %s run %d" % (label, i))
            for t in trs:
                traces.append(t)
                owner.append(base + i)
        chk.cov["evaluations"] += n
        for idx, m, nn in validate(chk, traces, label):
            ev = traces[idx][m] if 0 <= m < len(traces[idx]) else None
            chk.violation({"at": label, "event": (ev or {}).get("ev", "invariant")}, {"trace": traces[idx], "matched": m},
                          {"family": label, "seed": owner[idx]})
    # end to end
    outs = P.map(e2e_run, [base + 7 + i for i in range(n_e2e)], chunksize=4)
    outs += P.map(relogin_run, [base + 900007 + i for i in range(n_e2e // 2)], chunksize=4)
    traces, owner = [], []
    for i, (trs, inexact, info) in enumerate(outs):
        chk.cov["evaluations"] += 1
        if trs is None:
            raise RuntimeError("e2e harness failure: %r" % (info,))
        if inexact:
            raise RuntimeError("non-dyadic time in e2e run %d" % i)
        if info.get("failed"):
            chk.violation({"at": "e2e-transfer-failed"}, info, {"family": "e2e", "seed": base + 7 + i})
        # nothing limited in that direction: no delay at all
        if not info["any_limit"] and info["duration"] != 0:
            chk.violation({"at": "e2e-off-is-free"}, info, {"family": "e2e", "seed": base + 7 + i})
        for t in trs:
            traces.append(t)
            owner.append((base + 7 + i, info))
    # per-connection limits are independent of each other: n connections of one user under a per-connection limit (and nothing
    # else) each take exactly as long as a single one does
    ind = [{"level": lv, "limit": lim, "direction": d, "clients": n, "size": 40} for lv in ("server_conn", "user_conn", "client") for lim in (16, 64)
           for d in ("up", "down") for n in (1, 2, 3)]
    iouts = P.map(e2e_run, [(base + 5000 + k // 3, f) for k, f in enumerate(ind)], chunksize=2)
    for k in range(0, len(ind), 3):
        durs = []
        for f, (trs, inexact, info) in zip(ind[k:k + 3], iouts[k:k + 3]):
            chk.cov["evaluations"] += 1
            if trs is None:
                raise RuntimeError("e2e harness failure: %r" % (info,))
            durs.append(None if info.get("failed") else info["duration"])
        if len(set(durs)) != 1 or durs[0] is None:
            chk.violation({"at": "e2e-per-connection-independence", "level": ind[k]["level"]}, {"durations_for_1_2_3_connections": durs, "params": ind[k]},
                          {"family": "independence", "params": ind[k]})
    sysbad = judge.judge("ThrottleSys", [{"bounds": info["bounds"]} for _, _, info in outs], chk)
    for i in sorted(sysbad):
        chk.violation({"at": "e2e-system-bound"}, outs[i][2], {"family": "e2e", "seed": base + 7 + i})
    for idx, m, nn in validate(chk, traces, "e2e"):
        ev = traces[idx][m] if 0 <= m < len(traces[idx]) else None
        chk.violation({"at": "e2e", "event": (ev or {}).get("ev", "invariant")}, {"trace": traces[idx], "matched": m, "info": owner[idx][1]},
                      {"family": "e2e", "seed": owner[idx][0]})
    chk.cov["rule"] = ("every Throttle object's wait/append/limit events (virtual time in 1/64 s ticks, dyadic limits, exact arithmetic) "
                       "recorded while (a) a single throttle is driven through seeded chunk sizes, I/O durations, idle gaps around the "
                       "reset period, limit changes and clones, (b) 1-3 ThrottleStreamIO streams share one throttle and own others, "
                       "(c) the real client and server transfer files with limits at random subsets of the five levels, 1-3 "
                       "connections, both directions, sessions of the user coming and going, a second account with other limits taking over the "
                       "control connection; each stream of events must be a behaviour of Throttle.tla (a wait ends exactly "
                       "when the accounting allows, never later; no wait without a limit) and satisfy RateBound in every state; "
                       "unlimited transfers must take zero virtual time; distinct = seeds")
    chk.cov["distinct_nontrivial"] = n_api + n_stream + n_e2e
    chk.sample(traces[0][:8])
    return chk.finish()
