"""C01 - transferred bytes are exact (STOR / APPE / RETR, whole or from a restart offset)."""
import itertools
import json
import random

import aioftp

from harness import clientdrv, corecheck, gen, judge, mc, report, simnet, tlc
from harness import world as W


def payloads(B, rng, tier):
    sizes = sorted({0, 1, max(0, B - 1), B, B + 1, 2 * B, 2 * B + 1, 3 * B})
    out = []
    for n in sizes:
        out.append([(k % 250) + 1 for k in range(n)])  # position-tagged: reordering / duplication / loss are visible
    out.append([13, 10, 13, 10, 10, 13])
    out.append([0, 0, 0])
    out.append([255, 244, 255, 242, 255, 255])
    if tier != "quick":
        perm = list(range(256))
        rng.shuffle(perm)
        out.append(perm)
        out.append([7] * (3 * B + 1))
    return out


def chunkings(n, rng):
    yield [n] if n else []
    if n > 1:
        yield [1] * n
        k = rng.randrange(1, n)
        yield [k, n - k]


def make_case(rng, kind, B, E, existed, R, P, chunks, seg, latency, pasv, backend, rchunk, throttle):
    return dict(kind=kind, B=B, E=E, existed=existed, R=R, P=P, chunks=chunks, seg=seg, latency=latency, pasv=pasv,
                backend=backend, rchunk=rchunk, throttle=throttle)


def gen_cases(tier, rng):
    cases = []
    Bs = [1, 2, 3, 7] if tier != "quick" else [2, 3]
    for B in Bs:
        pls = payloads(B, rng, tier)
        existing = [[], [101, 102], [101, 102, 103, 104, 105]]
        for kind in ("stor", "appe"):
            for P in pls:
                for E in existing:
                    existed = True if E else rng.random() < 0.5
                    offs = [0, 1, len(E), len(E) + 2] if E else [0, 2]
                    for R in (offs if tier != "quick" else rng.sample(offs, min(2, len(offs)))):
                        for ch in list(chunkings(len(P), rng))[: (3 if tier != "quick" else 2)]:
                            cases.append(make_case(rng, kind, B, E, existed, R, P, ch, rng.choice([None, 1, 2, 5]),
                                                   rng.choice([0, 0, 0.01]), rng.choice(["epsv", "pasv"]), "memory", 0, None))
        for E in pls:
            offs = sorted({0, 1, max(0, len(E) - 1), len(E), len(E) + 3})
            for R in offs:
                for rchunk in ([1, B, 5, 8192] if tier != "quick" else [rng.choice([1, B, 5]), 8192]):
                    cases.append(make_case(rng, "retr", B, E, True, R, [], [], rng.choice([None, 1, 2, 5]), rng.choice([0, 0, 0.01]),
                                           rng.choice(["epsv", "pasv"]), "memory", rchunk, None))
    # throttled and real-file-system variants, default block size with sizes around it
    extra = []
    for c in rng.sample(cases, 60 if tier == "quick" else 600):
        c2 = dict(c, backend=rng.choice(["path", "async"]))
        extra.append(c2)
        c3 = dict(c, throttle=rng.choice([64, 256]))
        extra.append(c3)
        # a backend whose read() hands out fewer bytes than asked for (any file-like object may): the file ends at the empty read
        extra.append(dict(c, short=rng.choice([1, 3, 7, 4096])))
    big = []
    for n in ([8191, 8192, 8193] if tier == "quick" else [0, 1, 8191, 8192, 8193, 16384, 16385, 24576]):
        P = [(k * 7 + 3) % 256 for k in range(n)]
        big.append(make_case(rng, "stor", 8192, [], False, 0, P, [n] if n else [], rng.choice([None, 1000, 4096]), 0, "epsv", "memory", 0, None))
        big.append(make_case(rng, "retr", 8192, P, True, rng.choice([0, 1, 8192]), [], [], rng.choice([None, 1000]), 0, "pasv", "memory", 8192, None))
    return cases + extra + big


def run_case(c):
    users = [{"id": "u1", "login": "u1", "pw": "pw1", "max": 0, "perms": [], "home": [], "base": ["A"]}]
    kw = {}
    if c["throttle"]:
        kw = {"server_kwargs": {"read_speed_limit": c["throttle"], "write_speed_limit": c["throttle"]}}
    if c.get("short"):
        kw["short_reads"] = c["short"]
    cfg = gen.std_cfg(ns=2, users=users, block=c["B"], backend=c["backend"], **kw)
    tree = {"d": [["A"]], "f": ([{"p": ["A", "t"], "c": c["E"]}] if c["existed"] else [])}
    res = {}

    async def uploader(factory, w):
        cl = factory(passive_commands=(c["pasv"],))
        await cl.connect("127.0.0.1", W.CTL_PORT)
        await cl.login("u1", "pw1")
        ok = True
        try:
            if c["kind"] == "retr":
                got = bytearray()
                async with cl.download_stream("t", offset=c["R"]) as st:
                    while True:
                        b = await st.read(c["rchunk"])
                        if not b:
                            break
                        got += b
                res["got"] = list(got)
            else:
                mk = cl.upload_stream if c["kind"] == "stor" else cl.append_stream
                pos = 0
                async with mk("t", offset=c["R"]) as st:
                    for k in c["chunks"]:
                        await st.write(bytes(c["P"][pos:pos + k]))
                        pos += k
        except aioftp.StatusCodeError:
            ok = False
        res["ok"] = ok
        # after the completion reply: what another session sees
        c2 = factory()
        simnet.CUR_SESSION.set(2)
        await c2.connect("127.0.0.1", W.CTL_PORT)
        await c2.login("u1", "pw1")
        res["exists_after"] = await c2.exists("t")
        if res["exists_after"]:
            later = bytearray()
            async with c2.download_stream("t") as st:
                while True:
                    b = await st.read(4096)
                    if not b:
                        break
                    later += b
            res["later"] = list(later)
            res["size"] = int((await c2.stat("t"))["size"])
            ls = [i for p, i in await c2.list("") if p.name == "t"]
            res["listsize"] = int(ls[0]["size"]) if ls else -1
        await c2.quit()
        await cl.quit()
        return True

    out = clientdrv.run_clients(cfg, tree, {1: uploader}, seg=c["seg"], latency=c["latency"])
    if out["crash"]:
        return {"crash": out["crash"]}
    ft = {tuple(f["p"]): f["c"] for f in out["final_tree"]["f"]}
    rec = {"kind": c["kind"], "E": c["E"], "existed": c["existed"], "R": c["R"], "P": c["P"], "ok": res.get("ok", False),
           "exists_after": ("A", "t") in ft, "file": ft.get(("A", "t"), []), "later": res.get("later", []),
           "size": res.get("size", -1), "listsize": res.get("listsize", -1), "got": res.get("got", [])}
    return {"rec": rec, "trace": out["trace"], "cfg": cfg, "hang": out["hang"], "exc": {k: repr(v) for k, v in out["exc"].items()},
            "crash": None}


def run(tier, seed):
    chk = report.Check("C01", tier, seed)
    rng = random.Random(seed)
    mc.into(chk, mc.run_config("MC_Seq_q", "MC_Seq", must_cover=("ReplyEv", "WorkerStep")))
    cases = gen_cases(tier, rng)
    results = corecheck.pool().map(run_case, cases, chunksize=8)
    for r in results:
        if r["crash"]:
            raise RuntimeError("harness failure: " + r["crash"])
    chk.cov["evaluations"] += len(cases)
    # 1. end-to-end: Transfer.tla judges stored / delivered bytes and later visibility
    bad = judge.judge("Transfer", [r["rec"] for r in results], chk, chunk=3000)
    for i, r in enumerate(results):
        c = cases[i]
        desc = {k: (v if k not in ("E", "P") else len(v)) for k, v in c.items()}
        if r["hang"] or r["exc"]:
            chk.violation({"at": "client", "kind": c["kind"], "what": "hang" if r["hang"] else "exception"},
                          {"hang": r["hang"], "exc": r["exc"]}, {"case": c})
        elif i in bad:
            chk.violation({"at": "transfer-result", "kind": c["kind"], "restart": c["R"] > 0}, {"record": r["rec"], "case": desc}, {"case": c})
    # 2. the same executions must be behaviours of FtpCore (block-level byte accounting, 226 after close)
    groups = {}
    for i, r in enumerate(results):
        if len(r["rec"]["P"]) <= 64 and len(r["rec"]["E"]) <= 64:
            groups.setdefault(json.dumps(r["cfg"], sort_keys=True), []).append(i)
    for key, idx in groups.items():
        cfg = json.loads(key)
        res, tot = tlc.validate_traces(cfg, [results[i]["trace"] for i in idx])
        chk.add_tlc(tot)
        for j, i in enumerate(idx):
            m, n = res[j]
            chk.cov["traces_validated_against_impl"] += 1
            if m < n:
                sig = corecheck.signature(results[i]["trace"], m)
                sig["family"] = "client-transfer"
                chk.violation(sig, {"first_unmatched": results[i]["trace"][m]}, {"case": cases[i]})
    # 3. another session looks at or downloads the file while the transfer is in progress
    obs = gen.observer_family()
    for backend in ("memory", "path") if tier == "quick" else ("memory", "path", "async"):
        corecheck.validate(chk, gen.std_cfg(ns=2, backend=backend), gen.STD_TREE, obs, label="observer:" + backend)
    # 4. the restart offset belongs to the transfer command it precedes, whatever is sent while that transfer waits for its
    #    data connection
    parked = gen.parked_restart_family()
    for backend in ("memory", "path"):
        corecheck.validate(chk, gen.std_cfg(ns=1, backend=backend), gen.STD_TREE, parked if tier != "quick" else parked[::2], label="parked-rest:" + backend)
    # 5. commands on the control connection while the session's own transfer is moving data
    mid = gen.midtransfer_family()
    for backend in ("memory", "path"):
        corecheck.validate(chk, gen.std_cfg(ns=1, backend=backend), gen.STD_TREE, mid if tier != "quick" else mid[::2], label="midtransfer:" + backend)
    # 6. "however the network delays the data": an upload whose sender pauses - shorter and longer than the server's socket timeout -
    #    and then goes on.  Completion is announced only for what arrived completely; a pause that is too long ends the transfer
    #    without a completion reply, never with one for a prefix.
    login = [["connect", 1], ["send", 1, "USER u1"], ["send", 1, "PASS pw1"]]
    paused = []
    for verb in ("STOR n1", "APPE f", "STOR d/g"):
        for pasv in ("PASV", "EPSV"):
            for pause in (300, 999, 1000, 1001, 1700):
                for before in ([], [[1, 2, 3]], [[1, 2], [3, 4, 5]]):
                    st = login + [["send", 1, pasv], ["dconnect", 1], ["send", 1, verb]] + [["dsend", 1, b] for b in before]
                    st += [["tick", pause], ["dsend", 1, [7, 8]], ["deof", 1], ["tick", 0], ["send", 1, "PWD"]]
                    paused.append(st)
    corecheck.validate(chk, gen.std_cfg(ns=1, sock=1000), gen.STD_TREE, paused, label="upload-paused")
    chk.cov["rule"] = ("real client streams (upload_stream / append_stream / download_stream with offset) against the real server: "
                       "payload lengths 0,1,B-1,B,B+1,2B,2B+1,3B for block sizes B, position-tagged bytes, CR/LF/NUL/IAC runs, all 256 "
                       "values, existing lengths 0,2,5, restart offsets 0/inside/at end/beyond, client write chunkings and read sizes, "
                       "network segment sizes and latencies, EPSV/PASV, three backends, throttled; Transfer.tla judges stored and "
                       "delivered bytes, visibility to another session after the 226, stat and listing size; each execution is also "
                       "validated against FtpCore; wire-level family: a second session stats, lists or downloads the file while the transfer "
                       "is held in its j-th read or write; REST n / transfer command / other commands / only then the data connection; control commands (PASV, EPSV, ...) "
                       "while the session's own transfer is moving data; "
                       "distinct = distinct cases")
    chk.cov["distinct_nontrivial"] = len({json.dumps(c, sort_keys=True) for c in cases})
    chk.sample({k: v for k, v in cases[5].items()})
    chk.sample(results[5]["rec"])
    return chk.finish()
