"""C16 - configured timeouts bound how long a stalled peer can hold a session."""
import random

from harness import corecheck, gen, mc, report

CFGS = [(3000, 1000, 0), (0, 1000, 2000), (5000, 0, 2000), (2000, 3000, 1000), (0, 0, 0)]
BIGTREE = dict(gen.STD_TREE)
BIGTREE = {"d": gen.STD_TREE["d"], "f": gen.STD_TREE["f"] + [{"p": ["A", "big"], "c": list(range(1, 41))}]}


def stalls(idle):
    keep = []
    step = max(500, idle - 1) if idle else 1500
    for _ in range(4):
        keep += [["tick", step], ["send", 1, "PWD"]]
    return [
        [["tick", 20000]],
        [["totimer"]] * 6,
        keep + [["tick", 20000]],
        [["tick", 999], ["totimer"], ["tick", 1], ["totimer"], ["tick", 20000]],
    ]


def families(tier, rng, idle=3000):
    fam = []
    cor = gen.corpus(1, "u1")
    names = list(cor) if tier != "quick" else ["nav", "retr_post", "stor_post", "list", "nodata", "abort", "appe"]
    for name in names:
        sc = [x for x in cor[name] if x != ["send", 1, "QUIT"]]
        ks = range(1, len(sc) + 1) if tier != "quick" else range(1, len(sc) + 1, 2)
        for k in ks:
            for st in stalls(idle):
                fam.append(("stall:%s" % name, sc[:k] + st + sc[k:] + [["send", 1, "PWD"]]))
    login = [["connect", 1], ["send", 1, "USER u1"], ["send", 1, "PASS pw1"]]
    # stalled data connections: upload that stops sending, download whose reader stops reading, listing likewise
    for st in stalls(idle):
        fam.append(("stor-stall", login + [["send", 1, "PASV"], ["dconnect", 1], ["send", 1, "STOR n1"], ["dsend", 1, [1, 2, 3]]] + st))
        fam.append(("stor-stall", login + [["send", 1, "PASV"], ["send", 1, "STOR n1"], ["tick", 400], ["dconnect", 1], ["tick", 700], ["dsend", 1, [1]], ["tick", 900], ["dsend", 1, [2]]] + st))
        fam.append(("retr-hold", login + [["send", 1, "PASV"], ["dconnect", 1], ["hold", 1, 4], ["send", 1, "RETR big"]] + st))
        fam.append(("list-hold", login + [["send", 1, "EPSV"], ["dconnect", 1], ["hold", 1, 4], ["send", 1, "LIST"]] + st))
        fam.append(("idle-after-connect", [["connect", 1]] + st))
        fam.append(("idle-after-user", [["connect", 1], ["send", 1, "USER u1"]] + st))
    # second session keeps working while the first one stalls
    for st in stalls(idle)[:2]:
        fam.append(("two", login + [["connect", 2], ["send", 2, "USER u2"], ["send", 1, "PASV"], ["send", 1, "RETR f"]] + st[:1]
                    + [["send", 2, "PWD"]] + st + [["send", 2, "PWD"], ["send", 2, "QUIT"]]))
    return fam


def limited_run(args):
    """Real client and server, a speed limit whose pauses are longer than the timeout, and a peer that is never silent: the time
    the limiter makes the server wait is the server's own - no timeout may fire, everything is delivered."""
    kind, level, limit, tmo = args
    import asyncio
    from harness import clientdrv
    from harness import world as W
    skw, ukw = {}, {}
    rd = kind in ("upload", "commands")
    name = ("read" if rd else "write") + "_speed_limit" + ("_per_connection" if level.endswith("conn") else "")
    (skw if level.startswith("server") else ukw)[name] = limit
    users = [{"id": "u1", "login": "u1", "pw": "", "max": 0, "perms": [], "home": [], "base": ["A"], "kwargs": ukw}]
    cfg = gen.std_cfg(ns=1, users=users, block=8, server_kwargs=skw, sock=tmo if kind != "commands" else 0, idle=tmo if kind == "commands" else 0)
    payload = list(range(1, 41))
    tree = {"d": [["A"]], "f": [{"p": ["A", "f"], "c": payload}]}
    got = {}

    async def sc(factory, w):
        c = factory()
        await c.connect("127.0.0.1", W.CTL_PORT)
        await c.login("u1", "x")
        if kind == "download":
            buf = b""
            async with c.download_stream("f") as st:
                while True:
                    b = await st.read(8)
                    if not b:
                        break
                    buf += b
            got["data"] = list(buf)
        elif kind == "upload":
            async with c.upload_stream("up") as st:
                for k in range(0, 40, 8):
                    await st.write(bytes(payload[k:k + 8]))
            buf = b""
            async with c.download_stream("up") as st:
                while True:
                    b = await st.read(64)
                    if not b:
                        break
                    buf += b
            got["data"] = list(buf)
        else:
            codes = []
            for i in range(4):
                code, _ = await c.command("MLST " + "n" * 60 + str(i), ("2xx", "5xx"))
                codes.append(str(code))
            got["data"] = codes
        await c.quit()
        return True

    out = clientdrv.run_clients(cfg, tree, {1: sc})
    if out["crash"]:
        return {"crash": out["crash"]}
    want = ["550"] * 4 if kind == "commands" else payload
    return {"crash": None, "ok": not out["exc"] and not out["hang"] and got.get("data") == want, "exc": repr(out["exc"]) or out["hang"], "got": got.get("data")}


def dev_cfg(pool):
    return gen.std_cfg(ns=2, idle=3000, wait=1000, sock=2000 if pool else 0)


def run(tier, seed):
    chk = report.Check("C16", tier, seed)
    rng = random.Random(seed)
    mc.into(chk, mc.run_config("MC_Timed_q" if tier == "quick" else "MC_Timed_t", "MC_Seq", must_cover=("ReplyEv", "CtlClose", "MCNext")))
    n = 0
    for idle, wait, sock in (CFGS if tier != "quick" else CFGS[:4]):
        fam = families(tier, rng, idle)
        cfg = gen.std_cfg(ns=2, idle=idle, wait=wait, sock=sock)
        corecheck.validate(chk, cfg, BIGTREE, [s for _, s in fam], label="timeouts:%d:%d:%d" % (idle, wait, sock))
        n += len({repr(s) for _, s in fam})
    # the limiter's pauses are not the peer's silence
    lim = [(kind, level, limit, tmo) for kind in ("download", "upload", "commands") for level in ("server", "server_conn", "user", "user_conn")
           for limit, tmo in ((16, 250), (8, 500), (16, 1000 if kind == "commands" else 125))]
    for a, r in zip(lim, corecheck.pool().map(limited_run, lim, chunksize=2)):
        if r["crash"]:
            raise RuntimeError("harness failure in limited run %r: %s" % (a, r["crash"]))
        chk.cov["evaluations"] += 1
        if not r["ok"]:
            chk.violation({"at": "gave-up-during-own-pause", "kind": a[0]}, r, {"kind": a[0], "level": a[1], "limit": a[2], "timeout_ms": a[3]})
    n += len(lim)
    chk.cov["rule"] = ("corpus scripts with a stall (one long silence, stepping timer by timer, or commands kept just inside the idle "
                       "bound) inserted at every position, stalled uploads, downloads and listings whose reader stops reading, under "
                       "combinations of idle / wait-for-data / socket timeouts (each off or on); every event carries its virtual time, "
                       "the model admits a timeout action only at its exact deadline and rejects a quiescent state with an overdue "
                       "deadline; plus real client/server transfers and command sequences under a speed limit whose pauses exceed the "
                       "idle / socket timeout with a peer that is never silent: nothing may time out; distinct = schedules x timeout settings")
    chk.cov["distinct_nontrivial"] = n
    chk.sample(fam[10][1])
    return chk.finish()
