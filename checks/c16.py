"""C16 - configured timeouts bound how long a stalled peer can hold a session."""
import random

from harness import corecheck, gen, mc, report

CFGS = [(3000, 1000, 0), (0, 1000, 2000), (5000, 0, 2000), (2000, 3000, 1000), (0, 0, 0)]
BIGTREE = dict(gen.STD_TREE)
BIGTREE = {"d": gen.STD_TREE["d"], "f": gen.STD_TREE["f"] + [{"p": ["A", "big"], "c": list(range(1, 41))}]}


def stalls(idle):
    keep = []
    step = max(500, idle - 1) if idle else 1500
    for _ in range(4):
        keep += [["tick", step], ["send", 1, "PWD"]]
    return [
        [["tick", 20000]],
        [["totimer"]] * 6,
        keep + [["tick", 20000]],
        [["tick", 999], ["totimer"], ["tick", 1], ["totimer"], ["tick", 20000]],
    ]


def families(tier, rng, idle=3000):
    fam = []
    cor = gen.corpus(1, "u1")
    names = list(cor) if tier != "quick" else ["nav", "retr_post", "stor_post", "list", "nodata", "abort", "appe"]
    for name in names:
        sc = [x for x in cor[name] if x != ["send", 1, "QUIT"]]
        ks = range(1, len(sc) + 1) if tier != "quick" else range(1, len(sc) + 1, 2)
        for k in ks:
            for st in stalls(idle):
                fam.append(("stall:%s" % name, sc[:k] + st + sc[k:] + [["send", 1, "PWD"]]))
    login = [["connect", 1], ["send", 1, "USER u1"], ["send", 1, "PASS pw1"]]
    # stalled data connections: upload that stops sending, download whose reader stops reading, listing likewise
    for st in stalls(idle):
        fam.append(("stor-stall", login + [["send", 1, "PASV"], ["dconnect", 1], ["send", 1, "STOR n1"], ["dsend", 1, [1, 2, 3]]] + st))
        fam.append(("stor-stall", login + [["send", 1, "PASV"], ["send", 1, "STOR n1"], ["tick", 400], ["dconnect", 1], ["tick", 700], ["dsend", 1, [1]], ["tick", 900], ["dsend", 1, [2]]] + st))
        fam.append(("retr-hold", login + [["send", 1, "PASV"], ["dconnect", 1], ["hold", 1, 4], ["send", 1, "RETR big"]] + st))
        fam.append(("list-hold", login + [["send", 1, "EPSV"], ["dconnect", 1], ["hold", 1, 4], ["send", 1, "LIST"]] + st))
        fam.append(("idle-after-connect", [["connect", 1]] + st))
        fam.append(("idle-after-user", [["connect", 1], ["send", 1, "USER u1"]] + st))
    # second session keeps working while the first one stalls
    for st in stalls(idle)[:2]:
        fam.append(("two", login + [["connect", 2], ["send", 2, "USER u2"], ["send", 1, "PASV"], ["send", 1, "RETR f"]] + st[:1]
                    + [["send", 2, "PWD"]] + st + [["send", 2, "PWD"], ["send", 2, "QUIT"]]))
    return fam


def dev_cfg(pool):
    return gen.std_cfg(ns=2, idle=3000, wait=1000, sock=2000 if pool else 0)


def run(tier, seed):
    chk = report.Check("C16", tier, seed)
    rng = random.Random(seed)
    mc.into(chk, mc.run_config("MC_Timed_q" if tier == "quick" else "MC_Timed_t", "MC_Seq", must_cover=("ReplyEv", "CtlClose", "MCNext")))
    n = 0
    for idle, wait, sock in (CFGS if tier != "quick" else CFGS[:4]):
        fam = families(tier, rng, idle)
        cfg = gen.std_cfg(ns=2, idle=idle, wait=wait, sock=sock)
        corecheck.validate(chk, cfg, BIGTREE, [s for _, s in fam], label="timeouts:%d:%d:%d" % (idle, wait, sock))
        n += len({repr(s) for _, s in fam})
    chk.cov["rule"] = ("corpus scripts with a stall (one long silence, stepping timer by timer, or commands kept just inside the idle "
                       "bound) inserted at every position, stalled uploads, downloads and listings whose reader stops reading, under "
                       "combinations of idle / wait-for-data / socket timeouts (each off or on); every event carries its virtual time, "
                       "the model admits a timeout action only at its exact deadline and rejects a quiescent state with an overdue "
                       "deadline; distinct = schedules x timeout settings")
    chk.cov["distinct_nontrivial"] = n
    chk.sample(fam[10][1])
    return chk.finish()
