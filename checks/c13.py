"""C13 - backend failures are contained: 451, data channel closed, session lives on."""
import random

from harness import corecheck, gen, mc, report

PROBE = [["send", 1, "PWD"]] + gen.transfer(1, "RETR", "d/g", connect="after") + [["send", 1, "MLST d"]]
OBS_A = [["connect", 2], ["send", 2, "USER u2"], ["send", 2, "PWD"]]
OBS_B = [["send", 2, "MLST f"]] + gen.transfer(2, "RETR", "f", connect="before") + [["send", 2, "QUIT"]]


def families(tier, rng):
    fam = []
    cor = gen.corpus(1, "u1")
    cor = {k: v for k, v in cor.items()}
    maxk = 28 if tier == "quick" else 45
    for name, sc in cor.items():
        body = [x for x in sc if x != ["send", 1, "QUIT"]]
        for k in range(1, maxk):
            sch = OBS_A + body[:1] + [["fault", 1, None, k]] + body[1:] + PROBE + OBS_B + [["send", 1, "QUIT"]]
            fam.append(("fault1:%s" % name, sch))
        if tier != "quick":
            for _ in range(25):
                k1 = rng.randrange(1, 20)
                k2 = rng.randrange(1, 8)
                pos = rng.randrange(2, len(body))
                sch = OBS_A + body[:1] + [["fault", 1, None, k1]] + body[1:pos] + [["fault", 1, None, k2]] + body[pos:] + PROBE + OBS_B
                fam.append(("fault2:%s" % name, sch))
    # faults on a specific operation kind (first occurrence of each op in each script)
    for name, sc in cor.items():
        for op in ("exists", "is_dir", "is_file", "stat", "list", "mkdir", "rmdir", "unlink", "rename", "open", "seek", "read", "write", "close"):
            for nth in (1, 2):
                sch = OBS_A + sc[:1] + [["fault", 1, op, nth]] + sc[1:-1] + PROBE + OBS_B
                fam.append(("faultop:%s:%s" % (name, op), sch))
            # the same failure reported the way a third-party backend may: aioftp's own PathIOError, or a non-OSError exception
            for flavour in ("pathioerror", "exception"):
                sch = OBS_A + sc[:1] + [["fault", 1, op, 1, flavour]] + sc[1:-1] + PROBE + OBS_B
                fam.append(("faultop:%s:%s:%s" % (name, op, flavour), sch))
    # two backend failures of one session in the same event-loop iteration: a transfer worker and the handler of a
    # command sent meanwhile are both held inside a backend call, then both calls fail at once
    login = [["connect", 1], ["send", 1, "USER u1"], ["send", 1, "PASS pw1"]]
    for verb, arg, wop, data in (("RETR", "f", "read", None), ("STOR", "n1", "write", [1, 2, 3]), ("LIST", "", "list", None), ("MLSD", "d", "list", None)):
        for hverb, hop in (("MLST f", "stat"), ("CWD d", "is_dir"), ("MLST d/g", "exists"), ("DELE nope", "exists")):
            for order in (0, 1):
                x = login + [["send", 1, "PASV"], ["dconnect", 1], ["gate", 1, wop, 1], ["send", 1, (verb + " " + arg).strip()]]
                if data:
                    x.append(["dsend", 1, data])
                x += [["gate", 1, hop, 1], ["send", 1, hverb]]
                x += [["failrelease", 1]] if order == 0 else [["tick", 5], ["failrelease", 1]]
                x += [["deof", 1], ["send", 1, "PWD"]] + PROBE + OBS_B
                fam.append(("double:%s:%s" % (verb, hop), OBS_A + x))
    return fam


def dev_cfg(pool):
    return gen.std_cfg(ns=2, usepool=pool, ports=[3001, 3002] if pool else [])


def run(tier, seed):
    chk = report.Check("C13", tier, seed, level="model_checking")
    mc.into(chk, mc.run_config("MC_Fault_q" if tier == "quick" else "MC_Fault_t", "MC_Seq", must_cover=("ReplyEv", "WorkerStep", "ServerStep")))
    rng = random.Random(seed)
    fam = families(tier, rng)
    backends = ["memory"] if tier == "quick" else ["memory", "path", "async"]
    nontrivial = 0
    for b in backends:
        cfg = dev_cfg(False)
        cfg["backend"] = b
        out = corecheck.validate(chk, cfg, gen.STD_TREE, [s for _, s in fam], label="faults:" + b)
        nontrivial += sum(1 for sch, r, m, n in out if any(e.get("res") == "fault" for e in r["trace"] if e["ev"].startswith("Fs")))
    # a backend whose close() returns a true value (nothing says it may not): the faults inside transfers once more
    xf = [s for f, s in fam if any(k in f for k in ("retr", "stor", "appe"))]
    cfg = dict(dev_cfg(False), close_returns=True)
    corecheck.validate(chk, cfg, gen.STD_TREE, xf if tier != "quick" else xf[::3], label="faults:close-returns-true")
    chk.cov["rule"] = ("scripted corpus x the k-th backend call (or the n-th call of each operation kind) failing, with a "
                       "second session observing; non-trivial = the armed fault actually fired in that execution")
    chk.cov["distinct_nontrivial"] = nontrivial
    chk.sample(fam[3][1])
    return chk.finish()
