"""C19 - malformed input from the peer is contained on both sides (server side here; client side in c19_client)."""
import random

from harness import corecheck, gen, mc, report


def raw(b):
    return list(b)


def hostile_steps(rng, s):
    kinds = [
        lambda: raw(b"\xff\xfe\xfd\r\n"),
        lambda: raw(b"USER \xc3\x28\r\n"),
        lambda: raw(b"\xff\xf4\xff\xf2ABOR\r\n"),
        lambda: raw(b"A" * rng.choice([70000, 90000, 200000]) + b"\r\n"),
        lambda: raw(b"CWD " + b"a/" * 40000 + b"\r\n"),
        lambda: raw(b"CWD " + b"a/" * rng.choice([10, 100, 300]) + b"\r\n"),
        lambda: raw(b"PWD\x00\r\n"),
        lambda: raw(b"\x00\x00\x00\r\n"),
        lambda: raw(b"PWD\n"),
        lambda: raw(b"\r\n"),
        lambda: raw(b"   \r\n"),
        lambda: raw(b" PWD\r\n"),
        lambda: raw(b"PWD\tx\r\n"),
        lambda: raw("USER ‮\U0001f600\r\n".encode()),
        lambda: raw("PİWD\r\n".encode()),
        lambda: raw(b"REST 99999999999999999999\r\n") if False else raw(b"REST 123456\r\n"),
        lambda: raw(b"EPSV ALL\r\n"),
        lambda: raw(b"TYPE " + b"Z" * 3000 + b"\r\n"),
        lambda: raw(b"RETR " + bytes(range(1, 10)) + b"\r\n"),
        lambda: raw(b"STOR ../../../../etc/passwd\r\n"),
        lambda: raw(b"PORT 127,0,0,1,0,22\r\n"),
        lambda: raw(b"PW"),
        lambda: raw(b"CWD caf\xc3"), lambda: raw(b"MKD \xe2\x82"), lambda: raw(b"USER \xf0\x9f\x98"), lambda: raw(b"\xc3"),   # a character cut in two at the end of the stream
        lambda: raw(b"CWD caf\xc3\r\n"),
        lambda: raw(bytes(rng.choice([x for x in range(256) if x != 10]) for _ in range(rng.choice([1, 5, 40]))) + b"\r\n"),
    ]
    st = [["connect", s]]
    if rng.random() < 0.6:
        st += [["send", s, "USER u2"]]
        if rng.random() < 0.5:
            st += [["send", s, "PASV"]]
            if rng.random() < 0.5:
                st += [["dconnect", s]]
    if rng.random() < 0.3:
        # bad input arrives while the passive listener of that session is still being opened
        st += [["send", s, "USER u2"], ["lgate", s, rng.choice(["prebind", "postbind"])], ["send", s, rng.choice(["PASV", "EPSV"])],
               ["sendraw", s, rng.choice(kinds[:5])()], ["lrelease", s]]
    for _ in range(rng.choice([1, 2, 4])):
        k = rng.choice(kinds)()
        st.append(["sendraw", s, k])
        if k[-1:] != [10]:      # a fragment: the stream ends inside the line
            st.append(["vanish", s])
            return st
        if rng.random() < 0.3:
            st.append(["send", s, "PWD"])
    r = rng.random()
    if r < 0.4:
        st.append(["vanish", s])
    elif r < 0.6:
        st.append(["send", s, "QUIT"])
    return st


def families(tier, rng):
    fam = []
    n = 250 if tier == "quick" else 4000
    cor = gen.corpus(1, "u1")
    names = [k for k in cor if k != "nodata"]
    for i in range(n):
        victim = cor[rng.choice(names)]
        scr = {"1": victim, "2": hostile_steps(rng, 2)}
        if rng.random() < 0.4:
            scr["3"] = hostile_steps(rng, 3)
        fam.append(("hostile", (victim, {"concurrent": scr, "seed": rng.randrange(1 << 30), "gate_prob": rng.choice([0.0, 0.3])})))
    return fam


ODD_ARGS = ["//", "//x", "//d", "//d/g", "///", "///d", "/./", "/.", "./.", "/../..", "//..", "//../f", ".//", "d//", "/d//e/", "d/./e", "//d/../..", "/" + "a" * 200,
            "a/" * 50 + "b", "..//", "f//", "//f/", "/f/.", ". ", "./f", "/./f"]


def odd_arguments():
    """Every verb that takes a path, with arguments that are odd but perfectly decodable (doubled and tripled slashes at the front,
    in the middle and at the end, dots, very long names): answered, and the session goes on."""
    out = []
    for a in ODD_ARGS:
        st = [["connect", 1], ["send", 1, "USER u1"], ["send", 1, "PASS pw1"]]
        for v in ("MLST", "CWD", "PWD", "CDUP", "MKD", "RMD", "RNFR", "DELE"):
            st.append(["send", 1, (v + " " + a) if v not in ("PWD", "CDUP") else v])
        st += [["send", 1, "RNFR f"], ["send", 1, "RNTO " + a], ["send", 1, "PWD"]]
        for v in ("LIST", "MLSD", "RETR", "STOR", "APPE"):
            st += gen.transfer(1, v, a, data=[3, 1] if v in ("STOR", "APPE") else None)
        st += [["send", 1, "PWD"], ["send", 1, "MLST"]]
        out.append(st)
    return out


def dev_cfg(pool):
    return gen.std_cfg(ns=3, usepool=True, ports=[3001, 3002, 3003])


def transcript(result, s):
    rep, data = [], []
    for e in result["trace"]:
        if e.get("s") != s:
            continue
        if e["ev"] == "Reply":
            rep.append(e["code"])
        elif e["ev"] == "DataOut":
            data += e["data"]
    return rep, data


def run(tier, seed):
    chk = report.Check("C19", tier, seed)
    rng = random.Random(seed)
    mc.into(chk, mc.run_config("MC_Res_q", "MC_Res", must_cover=("ReplyEv", "CtlClose")))
    fam = families(tier, rng)
    cfg = dev_cfg(True)
    scheds = [x[1] for _, x in fam]
    out = corecheck.validate(chk, cfg, gen.STD_TREE, scheds, label="hostile")
    solos = corecheck.run_many([(cfg, gen.STD_TREE, x[0]) for _, x in fam])
    for i, solo in enumerate(solos):
        a, b = transcript(out[i][1], 1), transcript(solo, 1)
        chk.cov["evaluations"] += 1
        if a[0] != b[0] or ("LIST" not in repr(fam[i][1][0]) and "MLSD" not in repr(fam[i][1][0]) and a != b):
            chk.violation({"at": "victim-differential"}, {"with_hostile": a, "solo": b},
                          {"cfg": cfg, "tree": gen.STD_TREE, "schedule": scheds[i]})
    oa = odd_arguments()
    for b in ("memory", "path"):
        corecheck.validate(chk, gen.std_cfg(ns=1, backend=b), gen.STD_TREE, oa, label="odd-arguments:" + b)
    # a new session is still greeted after all of it
    chk.cov["rule"] = ("a victim session running a corpus script while 1-2 hostile sessions send undecodable bytes, over-limit lines, "
                       "NUL/LF-only/empty/blank lines, valid verbs with mutated arguments, fragments followed by EOF; the interleaved "
                       "execution must be a behaviour of the multi-session specification (hostile session answered or torn down with a "
                       "clean ledger, pool and counters exact) and the victim's replies and data equal its solo run; "
                       "distinct = distinct schedules")
    chk.cov["distinct_nontrivial"] = len({repr(s) for s in scheds})
    chk.sample({"victim": fam[0][1][0][:6], "hostile": scheds[0]["concurrent"]["2"][:6]})
    from checks import c19_client
    c19_client.run_into(chk, tier, seed)
    from checks import c19_proto
    c19_proto.run_into(chk, tier, seed)
    return chk.finish()
