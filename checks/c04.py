"""C04 - read/write permissions follow the nearest-ancestor rule on the resolved path."""
import itertools
import random

from harness import corecheck, gen, mc, report

# (names that are textual prefixes of their siblings - 'a' / 'ab', 'a/b' / 'a/bk' - separate "ancestor" from "string prefix")
TREE = {
    "d": [["R"], ["R", "a"], ["R", "a", "b"], ["R", "a", "b", "k"], ["R", "c"], ["R", "ab"], ["R", "a", "bk"]],
    "f": [{"p": ["R", "f"], "c": [1]}, {"p": ["R", "a", "f"], "c": [2, 2]}, {"p": ["R", "a", "b", "f"], "c": [3, 3, 3]},
          {"p": ["R", "c", "f"], "c": [4]}, {"p": ["R", "a", "b", "k", "f"], "c": [5]}, {"p": ["R", "ab", "f"], "c": [6]},
          {"p": ["R", "a", "bk", "f"], "c": [7]}],
}
PATHS = [[], ["a"], ["a", "b"], ["c"], ["a", "b", "k"], ["ab"], ["a", "bk"]]


def P(p, r, w):
    return {"p": p, "r": r, "w": w}


TABLES = {
    "ro-root-rw-child": [P([], True, False), P(["a"], True, True)],
    "hidden-root-readable-home": [P([], False, False), P(["a"], True, False)],
    "alternating": [P([], True, True), P(["a"], True, False), P(["a", "b"], True, True), P(["a", "b", "k"], False, False)],
    "duplicates-disagree": [P(["a"], True, False), P(["a"], True, True), P([], True, True)],
    "empty": [],
    "unordered": [P(["a", "b"], False, False), P([], True, True), P(["c"], False, True)],
    "write-only-child": [P([], True, True), P(["a"], False, True)],
    "closed-a-open-siblings": [P([], True, True), P(["a"], False, False), P(["a", "b"], True, False)],
    "open-a-closed-root": [P([], False, False), P(["a"], True, True), P(["a", "b"], False, False)],
}


def rand_table(rng):
    n = rng.choice([1, 2, 3, 4])
    return [P(rng.choice(PATHS), rng.random() < 0.6, rng.random() < 0.5) for _ in range(n)]


def aliases(p, cwd):
    """Spellings of absolute virtual path p as seen from cwd."""
    ab = "/" + "/".join(p)
    out = [ab, ab + "/" if p else "/", "/c/.." + ab, "//" + "/".join(p) if p else "/."]
    up = "/".join([".."] * len(cwd))
    rel = (up + "/" if up else "") + "/".join(p)
    out.append(rel if rel else ".")
    out.append("./" + rel if rel else "./")
    if p and cwd == p[:-1]:
        out.append(p[-1])
    if p:
        out.append(ab + "/../" + p[-1])
    return out


def session(rng, nsteps):
    s = 1
    st = [["connect", s], ["send", s, "USER u"]]
    cwd = []
    for _ in range(nsteps):
        r = rng.random()
        p = rng.choice(PATHS)
        al = lambda q: rng.choice(aliases(q, cwd))
        if r < 0.12:
            st.append(["send", s, "CWD " + al(p)])
            # (cwd tracking is approximate: only used to build relative spellings; the model is the judge)
            cwd = p if rng.random() < 0.7 else cwd
            st.append(["send", s, "PWD"])
            cwd_probe = True
        elif r < 0.17:
            st.append(["send", s, "CDUP"])
            cwd = cwd[:-1]
        elif r < 0.3:
            st.append(["send", s, "MLST " + al(p + rng.choice([[], ["f"]]))])
        elif r < 0.42:
            st.append(["send", s, "MKD " + al(p + ["n%d" % rng.randrange(3)])])
        elif r < 0.5:
            st.append(["send", s, "RMD " + al(p + rng.choice([[], ["n0"], ["n1"]]))])
        elif r < 0.58:
            st.append(["send", s, "DELE " + al(p + ["f"])])
        elif r < 0.68:
            st.append(["send", s, "RNFR " + al(p + ["f"])])
            st.append(["send", s, "RNTO " + al(rng.choice(PATHS) + ["g%d" % rng.randrange(2)])])
        else:
            verb = rng.choice(["RETR", "STOR", "APPE", "LIST", "MLSD"])
            if verb in ("LIST", "MLSD"):
                arg = al(p)
            elif verb == "RETR":
                arg = al(p + ["f"])
            else:
                arg = al(p + [rng.choice(["f", "up"])])
            st += gen.transfer(s, verb, arg, pasv=rng.choice(["PASV", "EPSV"]), connect=rng.choice(["before", "after"]),
                               data=[7, 7] if verb in ("STOR", "APPE") else None)
    return st


def relogin_session(rng, nsteps):
    """The same requests issued as two users with different tables on one control connection (u, v, u ...)."""
    s = 1
    st = [["connect", s], ["send", s, "USER u"]]
    cmds = []
    for _ in range(nsteps):
        p = rng.choice(PATHS)
        ab = "/" + "/".join(p)
        r = rng.random()
        if r < 0.25:
            cmds.append(["send", s, "MLST " + ab])
        elif r < 0.45:
            cmds.append(["send", s, "CWD " + ab])
        elif r < 0.65:
            cmds.append(["send", s, "MKD " + ab + "/n%d" % rng.randrange(2)])
        elif r < 0.8:
            cmds.append(["send", s, "DELE " + ab + "/f"])
        else:
            cmds.append(["send", s, "RNFR " + ab + "/f"])
    order = ["u", "v", "u", "v"][: rng.choice([2, 3, 4])]
    for i, who in enumerate(order):
        if i:
            st.append(["send", s, "USER " + who])
        st += cmds
        st.append(["send", s, "PWD"])
    return st


def overtake_sessions(rng, n):
    """Pipelining: a relative request is suspended inside one of its path-condition queries when CWD / CDUP arrives and is handled at
    once; when the request goes on, what it does must be authorised for the path it then acts on."""
    out = []
    reqs = [("DELE f", "is_file"), ("DELE f", "exists"), ("MLST f", "exists"), ("MKD n0", "exists"), ("RMD k", "is_dir"), ("RMD n0", "exists"),
            ("RNFR f", "exists"), ("CWD b", "is_dir"), ("MLST .", "exists"), ("DELE b/f", "is_file"), ("MKD b/n1", "exists")]
    for _ in range(n):
        a, b = rng.choice(PATHS), rng.choice(PATHS)
        req, op = rng.choice(reqs)
        move = rng.choice(["CWD /" + "/".join(b), "CWD /" + "/".join(b), "CDUP", "CWD " + rng.choice(["..", "b", "/c/../a"])])
        st = [["connect", 1], ["send", 1, "USER u"], ["send", 1, "CWD /" + "/".join(a)]]
        if rng.random() < 0.3:
            st += [["send", 1, "RNFR /a/f"], ["gate", 1, "exists", 1], ["send", 1, "RNTO g0"]]
        else:
            st += [["gate", 1, op, 1], ["send", 1, req]]
        st += [["send", 1, move]]
        if rng.random() < 0.3:
            st += [["send", 1, "PWD"]]
        st += [["release", 1], ["send", 1, "PWD"], ["send", 1, "MLST f"], ["send", 1, "MLST /a/f"], ["send", 1, "MLST /c/f"]]
        out.append(st)
    return out


def cfg_for2(ta, tb):
    users = [{"id": "u", "login": "u", "pw": "", "max": 0, "perms": ta, "home": [], "base": ["R"]},
             {"id": "v", "login": "v", "pw": "", "max": 0, "perms": tb, "home": [], "base": ["R"]}]
    return gen.std_cfg(ns=1, users=users)


def families(tier, rng):
    n = 60 if tier == "quick" else 600
    return [("perm", session(rng, rng.choice([8, 14]))) for _ in range(n)]


def cfg_for(table, home=()):
    users = [{"id": "u", "login": "u", "pw": "", "max": 0, "perms": table, "home": list(home), "base": ["R"]}]
    return gen.std_cfg(ns=1, users=users)


def dev_cfg(pool):
    return cfg_for(TABLES["alternating"])


def run(tier, seed):
    chk = report.Check("C04", tier, seed)
    rng = random.Random(seed)
    mc.into(chk, mc.run_config("MC_Perm_q" if tier == "quick" else "MC_Perm_t", "MC_Perm", must_cover=("ReplyEv", "WorkerStep")))
    mc.into(chk, mc.run_config("MC_Pipe_q" if tier == "quick" else "MC_Pipe_t", "MC_Perm", must_cover=("ReplyEv",), timeout=3000))   # pipelined CWD/CDUP overtaking a pending handler
    tables = list(TABLES.items()) + [("rand%d" % i, rand_table(rng)) for i in range(3 if tier == "quick" else 25)]
    total = 0
    for name, table in tables:
        fam = families(tier, rng)
        home = ["a"] if name == "hidden-root-readable-home" else []
        corecheck.validate(chk, cfg_for(table, home), TREE, [s for _, s in fam], label="perm:" + name)
        total += len({repr(s) for _, s in fam})
    for name, table in tables:
        fam3 = overtake_sessions(rng, 40 if tier == "quick" else 300)
        corecheck.validate(chk, cfg_for(table, []), TREE, fam3, label="overtake:" + name)
        total += len({repr(x) for x in fam3})
    # the table that applies is the *current* user's: the same requests as two users on one connection
    names = list(TABLES)
    for _ in range(4 if tier == "quick" else 40):
        a, b = rng.sample(names, 2)
        fam2 = [relogin_session(rng, rng.choice([5, 8])) for _ in range(25 if tier == "quick" else 120)]
        corecheck.validate(chk, cfg_for2(TABLES[a], TABLES[b]), TREE, fam2, label="relogin:%s/%s" % (a, b))
        total += len({repr(x) for x in fam2})
    chk.cov["rule"] = ("permission tables (nested, overlapping, duplicated with disagreeing flags, unordered, empty, seeded random) x "
                       "sessions of permission-checked commands on targets of depth 0..3 spelled absolutely, relatively, with '..' "
                       "detours and redundant slashes from varying working directories; relative requests overtaken by a pipelined CWD / CDUP "
                       "while suspended in a path-condition query; and the same requests repeated after re-login as a user with another table on the same connection; the model computes the admissible verdicts "
                       "from the nearest entries and requires tree and cwd unchanged after a refusal (tree compared at every "
                       "quiescent instant); distinct = sessions x tables")
    chk.cov["distinct_nontrivial"] = total
    chk.sample(fam[0][1])
    return chk.finish()
