"""C14 - ABOR at any moment stops the transfer, is answered, and keeps the session usable."""
import random

from harness import corecheck, gen, mc, report

LOGIN = [["connect", 1], ["send", 1, "USER u1"], ["send", 1, "PASS pw1"]]
FOLLOW = {
    "pwd": [["send", 1, "PWD"]],
    "retr": gen.transfer(1, "RETR", "d/g", connect="after"),
    "stor": gen.transfer(1, "STOR", "zz", connect="before", data=[4, 5, 6]) + [["send", 1, "DELE zz"]],
    "list": gen.transfer(1, "MLSD", "", pasv="EPSV", connect="after"),
    "abor2": [["send", 1, "ABOR"], ["send", 1, "PWD"]],
    "quit": [["send", 1, "QUIT"]],
}


def xfers(tier):
    out = []
    sizes = [0, 1, 2, 3, 5] if tier == "quick" else [0, 1, 2, 3, 4, 5, 6]
    for verb, arg in (("RETR", "f"), ("RETR", "d/g"), ("LIST", ""), ("MLSD", "d"), ("LIST", "d/e")):
        for connect in ("before", "after"):
            out.append((verb, gen.transfer(1, verb, arg, connect=connect, pasv="PASV" if connect == "before" else "EPSV")))
        out.append((verb, gen.transfer(1, verb, arg, connect="after", rest="2") if verb == "RETR" else gen.transfer(1, verb, arg, connect="after")))
    for verb in ("STOR", "APPE"):
        for n in sizes:
            data = list(range(1, n + 1))
            for connect in ("before", "after"):
                out.append((verb, gen.transfer(1, verb, "n1", connect=connect, data=data, chunks=max(1, n))))
        out.append((verb, gen.transfer(1, verb, "f", connect="after", data=[9, 9, 9], chunks=3, rest="1")))
    return out


def families(tier, rng):
    fam = []
    fkeys = list(FOLLOW)
    i = 0
    for verb, x in xfers(tier):
        # (i) ABOR between any two environment steps of the transfer, and after it
        for k in range(0, len(x) + 1):
            fu = fkeys[i % len(fkeys)]
            i += 1
            sch = LOGIN + x[:k] + [["send", 1, "ABOR"]] + x[k:] + FOLLOW[fu] + FOLLOW["retr"] + [["send", 1, "QUIT"]]
            fam.append(("pos:%s" % verb, sch))
        # (ii) ABOR while the j-th backend call of the transfer is in flight
        # (REST is left out here: whether an overtaking ABOR also wipes the restart offset of the
        #  transfer it failed to stop is part of known finding abor-before-150, not a separate question)
        if any(y[0] == "send" and y[2].startswith("REST") for y in x):
            continue
        for j in range(1, 9 if tier == "quick" else 16):
            fu = fkeys[i % len(fkeys)]
            i += 1
            sch = LOGIN + [["gate", 1, None, j], ["ongate", [["send", 1, "ABOR"], ["release", 1]], "continue"]] + x + FOLLOW[fu] + FOLLOW["retr"]
            fam.append(("gate:%s" % verb, sch))
    # (iv) loop-iteration-granular races: ABOR delivered a..b event-loop iterations around the end of the data
    rng_a = range(0, 7) if tier == "quick" else range(0, 10)
    for verb, arg, data in (("STOR", "n1", [1, 2, 3]), ("RETR", "f", None), ("LIST", "", None), ("MLSD", "d", None), ("APPE", "f", [7])):
        for a in rng_a:
            for b in (0, 1, 2, 3, 5):
                x = LOGIN + [["send", 1, "PASV"], ["send", 1, verb + " " + arg], ["dconnect", 1]]
                if data:
                    x.append(["dsend", 1, data])
                x += [["nq", ["deof", 1]], ["iter", a], ["nq", ["send", 1, "ABOR"]], ["iter", b], ["tick", 0], ["send", 1, "PWD"]] + FOLLOW["retr"]
                fam.append(("race-end:%s" % verb, x))
        for a in rng_a:
            x = LOGIN + [["send", 1, "PASV"], ["dconnect", 1], ["nq", ["send", 1, verb + " " + arg]], ["iter", a], ["nq", ["send", 1, "ABOR"]], ["tick", 0]]
            if data:
                x.append(["dsend", 1, data])
            x += [["deof", 1], ["send", 1, "PWD"]] + FOLLOW["retr"]
            fam.append(("race-start:%s" % verb, x))
    # (v) ABOR while the receiver has stopped reading the data connection (the server's send buffer is full)
    for verb, arg in (("RETR", "f"), ("RETR", "d/g"), ("LIST", ""), ("MLSD", "d"), ("LIST", "d")):
        for hw in (1, 4, 64):
            for fu in fkeys[:3]:
                x = LOGIN + [["send", 1, "PASV"], ["dconnect", 1], ["hold", 1, hw], ["send", 1, (verb + " " + arg).strip()], ["send", 1, "ABOR"], ["send", 1, "PWD"]]
                fam.append(("held:%s" % verb, x + FOLLOW[fu] + FOLLOW["retr"]))
    # (vi) the aborted worker's clean-up is slow (its file close is held) while the client already prepares the next transfer:
    #      new PASV / EPSV, new data connection, then the clean-up completes, then the next transfer runs
    for verb, arg in (("RETR", "f"), ("RETR", "d/g")):
        for nxt in ("PASV", "EPSV", None):
            for follow in ("RETR f", "LIST", "STOR n2"):
                x = LOGIN + [["send", 1, "PASV"], ["dconnect", 1], ["hold", 1, 4], ["gate", 1, "close", 1], ["send", 1, verb + " " + arg], ["send", 1, "ABOR"]]
                x += ([["send", 1, nxt]] if nxt else []) + [["dconnect", 1], ["release", 1], ["send", 1, "PWD"], ["send", 1, follow]]
                x += ([["dsend", 1, [4, 5]]] if follow.startswith("STOR") else []) + [["deof", 1], ["send", 1, "PWD"]]
                fam.append(("slowcleanup:%s" % verb, x))
    for verb, data in (("STOR n1", [1, 2, 3]), ("APPE f", [9])):
        for nxt in ("PASV", None):
            x = LOGIN + [["send", 1, "PASV"], ["dconnect", 1], ["gate", 1, "close", 1], ["send", 1, verb], ["dsend", 1, data], ["send", 1, "ABOR"]]
            x += ([["send", 1, nxt]] if nxt else []) + [["dconnect", 1], ["release", 1], ["send", 1, "PWD"], ["send", 1, "RETR f"], ["deof", 1], ["send", 1, "PWD"]]
            fam.append(("slowcleanup:%s" % verb.split()[0], x))
    # (iii) nothing to abort
    fam.append(("none", LOGIN + [["send", 1, "ABOR"], ["send", 1, "ABOR"]] + FOLLOW["retr"]))
    fam.append(("none", [["connect", 1], ["send", 1, "ABOR"], ["send", 1, "USER u1"], ["send", 1, "ABOR"], ["send", 1, "PASS pw1"], ["send", 1, "ABOR"]]))
    return fam


def slow_write_sessions():
    """A backend whose write takes time *before* it takes effect: ABOR arrives while a block is on its way into the file.  Whatever was
    not written when the transfer was answered is not written afterwards either."""
    out = []
    login = [["connect", 1], ["send", 1, "USER u1"], ["send", 1, "PASS pw1"]]
    for verb in ("STOR n1", "APPE f", "STOR f"):
        for nth in (1, 2):
            for more in ([], [[5, 6]]):
                st = login + [["send", 1, "PASV"], ["dconnect", 1], ["pregate", 1, "write", nth], ["send", 1, verb], ["dsend", 1, [1, 2]], ["dsend", 1, [3, 4]]]
                st += [["dsend", 1, d] for d in more] + [["send", 1, "ABOR"], ["release", 1], ["tick", 0], ["send", 1, "MLST " + verb.split()[1]]]
                st += gen.transfer(1, "APPE", verb.split()[1], data=[9]) + gen.transfer(1, "RETR", verb.split()[1])
                out.append(st)
    return out


def bystander_sessions():
    """ABOR (or the end of the session) from a session that has no transfer while *another* session's transfer is waiting for its
    data connection, moving data or held in a backend call: the sender gets its single 226, the other transfer is not touched."""
    out = []
    login = [["connect", 1], ["send", 1, "USER u2"], ["connect", 2], ["send", 2, "USER u1"], ["send", 2, "PASS pw1"]]
    xs = {"retr": (["send", 2, "RETR f"], None), "stor": (["send", 2, "STOR n1"], [1, 2, 3]), "list": (["send", 2, "LIST"], None), "appe": (["send", 2, "APPE f"], [9])}
    for name, (cmd, data) in xs.items():
        for what in (["send", 1, "ABOR"], ["send", 1, "QUIT"], ["vanish", 1]):
            rest = ([["dsend", 2, data]] if data else []) + [["deof", 2], ["send", 2, "PWD"], ["send", 2, "MLST f"]]
            after = [["send", 1, "PWD"]] if what[1:] == [1, "ABOR"] else []
            # waiting for the data connection
            out.append(login + [["send", 2, "PASV"], cmd, what] + after + [["dconnect", 2]] + rest)
            # connected, nothing moved yet / held in its first backend calls
            out.append(login + [["send", 2, "PASV"], ["dconnect", 2], ["hold", 2, 4], cmd, what] + after + rest)
            for j in (1, 2, 3):
                out.append(login + [["send", 2, "EPSV"], ["dconnect", 2], ["gate", 2, None, j], cmd] + ([["dsend", 2, data]] if data else [])
                           + [what] + after + [["release", 2], ["deof", 2], ["send", 2, "PWD"], ["send", 2, "MLST f"]])
    return out


def run(tier, seed):
    chk = report.Check("C14", tier, seed)
    mc.into(chk, mc.run_config("MC_Fault_q" if tier == "quick" else "MC_Fault_t", "MC_Seq", must_cover=("ReplyEv", "WorkerStep")))
    rng = random.Random(seed)
    fam = families(tier, rng)
    backends = ["memory"] if tier == "quick" else ["memory", "path", "async"]
    nontrivial = 0
    for b in backends:
        for block in ([2] if tier == "quick" else [1, 2, 3]):
            cfg = gen.std_cfg(ns=1, backend=b, block=block)
            out = corecheck.validate(chk, cfg, gen.STD_TREE, [s for _, s in fam], label="abor:%s:b%d" % (b, block))
            nontrivial += sum(1 for sch, r, m, n in out if any(e["ev"] == "Reply" and e["code"] == "426" for e in r["trace"]))
    if tier == "quick":
        # the loop-iteration races also on the executor-style backend (its calls complete one iteration later: ABOR can reach a
        # transfer task that has not taken its first step)
        races = [s for f, s in fam if f.startswith(("race-start", "race-end"))]
        cfg = gen.std_cfg(ns=1, backend="async", block=2)
        corecheck.validate(chk, cfg, gen.STD_TREE, races, label="abor:async:b2")
    sw = slow_write_sessions()
    for blk in (2, 4):
        corecheck.validate(chk, gen.std_cfg(ns=1, block=blk), gen.STD_TREE, sw, label="slow-write:b%d" % blk)
    by = bystander_sessions()
    for b in ("memory", "async"):
        corecheck.validate(chk, gen.std_cfg(ns=2, backend=b, block=2), gen.STD_TREE, by, label="bystander:" + b)
    chk.cov["rule"] = ("RETR/STOR/APPE/LIST/MLSD x sizes x data connection before/after the command x ABOR at every step "
                       "position and while the j-th backend call is in flight, followed by further commands and a second "
                       "transfer; non-trivial = an ABOR actually interrupted a transfer (426 observed)")
    chk.cov["distinct_nontrivial"] = nontrivial
    chk.sample(fam[5][1])
    return chk.finish()
