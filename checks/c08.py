"""C08 - file and directory names mean the same thing in every command and reply."""
import itertools
import json
import pathlib
import random

import aioftp

from harness import clientdrv, corecheck, gen, judge, report, tlc
from harness import world as W

CLASSES = {
    "plain": ["a", "Z9", "name"], "space": [" "], "quote": ['"'], "semi": [";"], "eq": ["="], "dash": ["-"], "digit": ["7", "250"],
    "backslash": ["\\"], "percent": ["%s", "%"], "dot": [".", "..", "..."], "nonascii": ["é", "ж", "名"], "combining": ["é"], "astral": ["\U0001F600"],
    "semisp": ["; "], "eqsp": ["= "], "spsemi": [" ;"], "spdash": [" -"], "crlfish": ["\\r\\n"],
    "linesep": ["\x0b", "\x0c", "\x1c", "\x1e", "\x85", "\u2028", "\u2029"],   # what str.splitlines() splits at, besides CR and LF
    "mlsx": ["Type=dir;", "Size=1;", "Type=dir; "], "arrow": [" -> ", "a -> b", "old -> new"], "code": ["250 ", "226-"], "dquote": ['""'], "squote": ["'"],
}


def valid(n):
    return n and n not in (".", "..") and n == n.rstrip() and not any(ch in n for ch in "/\0\r\n") and len(n.encode()) < 200


def names(tier, rng):
    keys = list(CLASSES)
    out = []
    maxlen = 2 if tier == "quick" else 3
    for n in range(1, maxlen + 1):
        combos = list(itertools.product(keys, repeat=n))
        if n == 3:
            combos = rng.sample(combos, 2500)
        for combo in combos:
            for _ in range(1 if tier == "quick" else 2):
                s = "".join(rng.choice(CLASSES[k]) for k in combo)
                if valid(s):
                    out.append(s)
    return sorted(set(out))


def run_case(c):
    name, depth = c["name"], c["depth"]
    users = [{"id": "u1", "login": "u1", "pw": "", "max": 0, "perms": [], "home": [], "base": ["R"]}]
    cfg = gen.std_cfg(ns=1, users=users, block=3)
    prefix = ["p%d" % k for k in range(depth - 1)]
    tree = {"d": [["R"]] + [["R"] + prefix[: k + 1] for k in range(len(prefix))], "f": []}
    rec = {"completed": False}
    path = prefix + [name]
    fname, gname = c["fname"], c["gname"]
    payload, payload2 = [1, 2, 3, 4], [9, 8]

    async def sc(factory, w):
        cl = factory()
        if c.get("fallback"):  # a server without MLSD / MLST: the client lists and stats through LIST
            w.server.commands_mapping.pop("mlsd")
            w.server.commands_mapping.pop("mlst")
        await cl.connect("127.0.0.1", W.CTL_PORT)
        await cl.login("u1", "x")
        if c.get("relative"):
            # address everything relatively: from the parent for the directory, from the directory for the files
            if prefix:
                await cl.change_directory("/" + "/".join(prefix))
            P = lambda segs: "/".join(segs[len(prefix):]) if len(segs) > len(prefix) else "."
        else:
            P = lambda segs: "/" + "/".join(segs)
        step = "start"
        try:
            step = "mkd"
            await cl.make_directory(P(path))
            step = "cwd"
            await cl.change_directory(P(path))
            step = "pwd"
            rec["pwd"] = list((await cl.get_current_directory()).parts[1:])
            step = "cdup"
            await cl.change_directory()
            rec["pwd_after_cdup"] = list((await cl.get_current_directory()).parts[1:])
            step = "list"
            rec["listed"] = [p.name for p, i in await cl.list(P(prefix))]
            step = "stat"
            rec["stat_type"] = (await cl.stat(P(path)))["type"]
            rec["exists"] = await cl.exists(P(path))
            step = "stor"
            async with cl.upload_stream(P(path + [fname])) as st:
                await st.write(bytes(payload))
            rec["file_listed"] = [p.name for p, i in await cl.list(P(path))]
            step = "fstat"
            fst = await cl.stat(P(path + [fname]))
            rec["file_stat_type"] = fst["type"]
            rec["file_stat_size"] = int(fst["size"])
            rec["file_is_file"] = bool(await cl.is_file(P(path + [fname]))) and not await cl.is_dir(P(path + [fname]))
            step = "retr"
            async with cl.download_stream(P(path + [fname])) as st:
                rec["got"] = list(await st.read())
            step = "appe"
            async with cl.append_stream(P(path + [fname])) as st:
                await st.write(bytes(payload2))
            async with cl.download_stream(P(path + [fname])) as st:
                rec["got_after_append"] = list(await st.read())
            rec["tree_mid"] = w.snapshot()
            step = "rename"
            await cl.rename(P(path + [fname]), P(path + [gname]))
            rec["renamed_listed"] = [p.name for p, i in await cl.list(P(path))]
            async with cl.download_stream(P(path + [gname])) as st:
                rec["got_renamed"] = list(await st.read())
            await cl.rename(P(path + [gname]), P(path + [fname]))
            rec["back_listed"] = [p.name for p, i in await cl.list(P(path))]
            step = "dele"
            await cl.remove_file(P(path + [fname]))
            step = "rmd"
            await cl.remove_directory(P(path))
            rec["completed"] = True
        except Exception as e:  # noqa
            rec["failed_at"] = step
            rec["error"] = repr(e)
        try:
            await cl.quit()
        except Exception:
            pass

    out = clientdrv.run_clients(cfg, tree, {1: sc})
    if out["crash"]:
        return {"crash": out["crash"]}
    rec["tree_end"] = out["final_tree"]
    rec["hang"] = out["hang"]
    return {"crash": None, "rec": rec, "trace": out["trace"], "cfg": cfg, "tree": tree}


def upload_case(name):
    """Client.upload / Client.download of a local directory whose entries carry the name: every object arrives under exactly that name."""
    from checks import c09
    users = [{"id": "u1", "login": "u1", "pw": "", "max": 0, "perms": [], "home": [], "base": ["R"]}]
    cfg = gen.std_cfg(ns=1, users=users)
    rec = {}
    src = [([], "d", None), ([name], "f", [7]), ([name + "d"], "d", None), ([name + "d", "k"], "f", [8]), ([name + "d", name], "f", [9])]

    async def sc(factory, w):
        cl = factory(path_io_factory=aioftp.MemoryPathIO)
        await cl.connect("127.0.0.1", W.CTL_PORT)
        await cl.login("u1", "x")
        try:
            await c09.local_fill(cl.path_io, pathlib.Path("/loc/src"), src)
            await cl.upload(pathlib.Path("/loc/src"), "/up", write_into=True)
            rec["remote"] = sorted((e["p"], e["k"], e["c"]) for e in c09.tree_entries(w.snapshot(), ["R", "up"]))
            await c09.local_fill(cl.path_io, pathlib.Path("/back"), [([], "d", None)])
            await cl.download("/up", pathlib.Path("/back"), write_into=True)
            rec["local"] = sorted((e["p"][1:], e["k"], e["c"]) for e in c09.mem_entries(cl.path_io) if e["p"][:1] == ["back"] and len(e["p"]) > 1)
        except Exception as e:  # noqa
            rec["error"] = repr(e)
        await cl.quit()

    out = clientdrv.run_clients(cfg, {"d": [["R"]], "f": []}, {1: sc})
    if out["crash"]:
        return {"crash": out["crash"]}
    want = sorted((p, k, c or []) for p, k, c in src if p)
    fix = lambda t: sorted((p, k, c or []) for p, k, c in t)
    ok = not rec.get("error") and not out["hang"] and not out["exc"] and fix(rec.get("remote", [])) == want and fix(rec.get("local", [])) == want
    return {"crash": None, "ok": ok, "rec": rec, "want": want}


def run(tier, seed):
    chk = report.Check("C08", tier, seed)
    rng = random.Random(seed)
    ns = names(tier, rng)
    cases = []
    for n in ns:
        depth = rng.choice([1, 2, 3])
        f, g = rng.choice([("f", "g"), (n, "g"), ("f", n + "2"), (n, n + "x")])
        cases.append({"name": n, "depth": depth, "fname": f, "gname": g, "relative": False})
        if rng.random() < 0.5 or n != n.lstrip() or n[:1] in "-\"'":
            cases.append({"name": n, "depth": depth, "fname": f, "gname": g, "relative": True})
        if rng.random() < 0.35 or any(x in n for x in (" -> ", " ", "-", "7")):
            cases.append({"name": n, "depth": depth, "fname": f, "gname": g, "relative": rng.random() < 0.3, "fallback": True})
    results = corecheck.pool().map(run_case, cases, chunksize=8)
    # whole directories through Client.upload / Client.download, entries named by every name
    up_names = ns if tier != "quick" else ns[::3]
    for n, r in zip(up_names, corecheck.pool().map(upload_case, up_names, chunksize=8)):
        if r["crash"]:
            raise RuntimeError("harness failure: " + r["crash"])
        chk.cov["evaluations"] += 1
        if not r["ok"]:
            chk.violation({"at": "name-upload-download", "has_backslash": "\\" in n}, {"name": n, "got": r["rec"], "want": r["want"]}, {"name": n, "op": "upload+download"})
    jc = []
    for c, r in zip(cases, results):
        if r["crash"]:
            raise RuntimeError("harness failure: " + r["crash"])
        rec = r["rec"]
        prefix = ["p%d" % k for k in range(c["depth"] - 1)]
        path = prefix + [c["name"]]
        start = r["tree"]
        mid = {"d": sorted(start["d"] + [["R"] + path]), "f": [{"p": ["R"] + path + [c["fname"]], "c": [1, 2, 3, 4, 9, 8]}]}
        d = {"completed": rec["completed"] and not rec["hang"], "name": c["name"], "fname": c["fname"], "gname": c["gname"], "path": path, "parent": prefix,
             "payload": [1, 2, 3, 4], "payload2": [9, 8], "tree_start": {"d": sorted(start["d"]), "f": []}, "expected_mid": mid}
        for k, dflt in (("pwd", []), ("pwd_after_cdup", []), ("listed", []), ("stat_type", ""), ("exists", False), ("file_stat_type", ""), ("file_stat_size", -1), ("file_is_file", False), ("file_listed", []),
                        ("got", []), ("got_after_append", []), ("renamed_listed", []), ("got_renamed", []), ("back_listed", []),
                        ("tree_mid", {"d": [], "f": []}), ("tree_end", {"d": [], "f": []})):
            d[k] = rec.get(k, dflt)
        jc.append(d)
    chk.cov["evaluations"] += len(cases)
    bad = judge.judge("Names", jc, chk, chunk=3000)
    for i in sorted(bad):
        c, rec = cases[i], results[i]["rec"]
        chars = sorted({k for k, draws in CLASSES.items() for dr in draws if dr in c["name"] and k != "plain"})
        sig = {"at": "name-tour", "failed_at": rec.get("failed_at", "compare"), "has_quote": '"' in c["name"]}
        chk.violation(sig, {"name": c["name"], "classes": chars, "record": {k: v for k, v in rec.items() if k not in ("tree_mid", "tree_end")}}, {"case": c})
    # the server-side meaning of every command of the tours: FtpCore trace validation
    ok_idx = [i for i in range(len(cases)) if not cases[i].get("fallback")]   # (a server stripped of MLSD/MLST is not the model's server)
    cfg = results[0]["cfg"]
    res, tot = tlc.validate_traces(cfg, [results[i]["trace"] for i in ok_idx])
    chk.add_tlc(tot)
    for j, i in enumerate(ok_idx):
        m, n = res[j]
        chk.cov["traces_validated_against_impl"] += 1
        if m < n and i not in bad:
            sig = corecheck.signature(results[i]["trace"], m)
            sig["family"] = "name-tour-wire"
            chk.violation(sig, {"name": cases[i]["name"], "first_unmatched": results[i]["trace"][m]}, {"case": cases[i]})
    chk.cov["rule"] = ("names = all sequences of <= %d character classes out of %d (plain, blank, quote, doubled quote, apostrophe, "
                       "semicolon, '=', dash, digits and reply-code look-alikes, backslash, percent directives, dot, non-ASCII, "
                       "combining, astral, MLSx-fact and ' -> ' look-alikes), valid per the statement, at nesting depth 1..3, addressed by absolute and by relative paths, also used as "
                       "file names; each goes through a 14-step tour of the real client methods against the real server; Names.tla in "
                       "TLC compares every returned value and the backend tree, FtpCore validates the wire trace; distinct = names"
                       % (2 if tier == "quick" else 3, len(CLASSES)))
    chk.cov["distinct_nontrivial"] = len(cases)
    chk.sample({"name": cases[10]["name"], "depth": cases[10]["depth"]})
    return chk.finish()
