def run_into(chk, tier, seed):
    chk.notes["client_side"] = "not built yet"
