"""C19, client side: whatever a server sends, the client returns well-typed results or raises an ordinary exception."""
import asyncio
import itertools
import re
import pathlib
import random

import aioftp

from harness import judge, simnet, vloop, watchdog

UNIX = ["-rw-r--r--", "1", "owner", "group", "1234", "Jan 01 12:30", "name.txt"]
UNIXD = ["drwxr-xr-x", "2", "o", "g", "0", "Dec 31  2001", "a dir"]
UNIXL = ["lrwxrwxrwx", "1", "o", "g", "4", "Feb 29 00:00", "lnk -> target/"]
WIN = ["01/02/2021", "03:04 PM", "<DIR>", "folder"]
WINF = ["12/31/1999", "11:59 AM", "1,234", "file name.bin"]
MLSX = ["Type=file;", "Size=12;", "Modify=20210102030405;", " name"]

MUTS = ["drop", "empty", "dup", "nonascii", "digits", "long", "space", "dash", "ctrl", "swap", "truncate", "quote", "percent", "neg", "huge",
        "feb30", "arrow", "dots", "tab"]


def mutate(val, kind, rng):
    return {
        "drop": None, "empty": "", "dup": val + " " + val, "nonascii": "ж" + val + "٣²", "digits": "0123456789" * 3, "long": val * 200,
        "space": " " + val + "  ", "dash": "-" * len(val), "ctrl": val[:1] + "\x00\x07\x1b" + val[1:], "swap": val[::-1],
        "truncate": val[: max(0, len(val) // 2)], "quote": '"' + val + "'", "percent": "%s%d{}" + val, "neg": "-1", "huge": "9" * 40,
        "feb30": "Feb 30 25:61", "arrow": val + " -> ", "dots": "..", "tab": "\t" + val,
    }[kind]


def list_lines(rng, tier):
    out = []
    for tname, tmpl, sep in (("unix", UNIX, " "), ("unixd", UNIXD, " "), ("unixl", UNIXL, " "), ("win", WIN, "  "), ("winf", WINF, "  "), ("mlsx", MLSX, "")):
        for fi in range(len(tmpl)):
            for mk in MUTS:
                f = list(tmpl)
                m = mutate(f[fi], mk, rng)
                if m is None:
                    del f[fi]
                else:
                    f[fi] = m
                out.append((tname, fi, mk, sep.join(f)))
        # the numbers inside a field, one at a time, grown past every width a date, a size or a count can have
        for fi in range(len(tmpl)):
            runs = list(re.finditer(r"\d+", tmpl[fi]))
            for j, m in enumerate(runs):
                for rk, rep in (("wide", m.group(0) + "0" * 9), ("nines", "9" * 12), ("nines20", "9" * 20), ("zero", "0"), ("padded", m.group(0).zfill(12))):
                    f = list(tmpl)
                    f[fi] = tmpl[fi][:m.start()] + rep + tmpl[fi][m.end():]
                    out.append((tname, fi * 10 + j, "run-" + rk, sep.join(f)))
        if tier != "quick":
            for (f1, f2) in itertools.combinations(range(len(tmpl)), 2):
                for m1, m2 in rng.sample(list(itertools.product(MUTS, repeat=2)), 25):
                    f = list(tmpl)
                    a, b = mutate(f[f1], m1, rng), mutate(f[f2], m2, rng)
                    f[f1] = a if a is not None else ""
                    f[f2] = b if b is not None else ""
                    out.append((tname, f1 * 10 + f2, m1 + "+" + m2, sep.join(f)))
    # raw byte soup
    for k in range(60 if tier == "quick" else 1500):
        n = rng.choice([0, 1, 3, 10, 40])
        out.append(("bytes", k, "random", bytes(rng.randrange(256) for _ in range(n))))
    return out


def classify(fn, arg, typed, check_name=True):
    if watchdog.POISONED[0]:
        return None  # an earlier call blocked the thread (and whatever it holds is still held): nothing more can be observed here
    try:
        with watchdog.guard(30):
            r = fn(arg)
        if typed is typed_list and typed(r) and check_name:
            # nothing invented: the reported name is text of the line itself
            try:
                text = arg.decode("utf-8") if isinstance(arg, bytes) else arg
            except UnicodeDecodeError:
                text = None
            # (a line without any name part - nothing after the first blank - denotes the listed directory itself: '.')
            if text is not None and " " in text.strip() and str(r[0]) not in text:
                return "illtyped"
    except ValueError:
        return "ValueError"
    except Exception:
        return "Exception"
    except watchdog.HardHang:
        return "hang"
    except BaseException:
        return "BaseException"
    return "typed" if typed(r) else "illtyped"


def typed_list(r):
    return (isinstance(r, tuple) and len(r) == 2 and isinstance(r[0], pathlib.PurePosixPath) and isinstance(r[1], dict)
            and all(isinstance(k, str) for k in r[1]))


class FakeServer:
    """A scripted FTP server: enough protocol for Client.list(); listings are arbitrary bytes per directory."""

    def __init__(self, net, listings, use_mlsd=True, pasv_reply=None):
        self.net = net
        self.listings = listings
        self.use_mlsd = use_mlsd
        self.pasv_reply = pasv_reply
        self.data = None
        self.lines_sent = 0
        self.dots_sent = 0

    async def data_cb(self, r, w):
        self.data = (r, w)

    async def handle(self, r, w):
        w.write(b"220 hi\r\n")
        while True:
            line = await r.readline()
            if not line:
                break
            cmd, _, arg = line.decode("utf-8", "replace").rstrip().partition(" ")
            cmd = cmd.upper()
            if cmd in ("USER", "PASS"):
                w.write(b"230 ok\r\n")
            elif cmd == "TYPE":
                w.write(b"200 ok\r\n")
            elif cmd == "EPSV":
                srv = await self.net.start_server(self.data_cb, "127.0.0.1", 0)
                self.dsrv = srv
                w.write((self.pasv_reply or ("229 ok (|||%d|)" % srv.port)).encode() + b"\r\n")
            elif cmd == "PASV":
                w.write(b"502 no\r\n")
            elif cmd in ("MLSD", "LIST"):
                if cmd == "MLSD" and not self.use_mlsd:
                    w.write(b"502 no\r\n")
                    continue
                w.write(b"150 here\r\n")
                for _ in range(50):
                    if self.data:
                        break
                    await asyncio.sleep(0)
                body = self.listings.get(arg, self.listings.get("*", b""))
                self.lines_sent += body.count(b"\n")
                for ln in body.split(b"\r\n"):
                    if ln.endswith((b" .", b" ..")) or (ln and b" " not in ln.strip()):
                        self.dots_sent += 1  # '.', '..' and name-less lines (= the directory itself) are not entries
                dr, dw = self.data
                dw.write(body)
                dw.close()
                self.data = None
                self.dsrv.close()
                w.write(b"226 done\r\n")
            elif cmd == "QUIT":
                w.write(b"221 bye\r\n")
                break
            else:
                w.write(b"502 no\r\n")
        w.close()


def run_lister(listings, use_mlsd, recursive, budget=20000, pasv_reply=None):
    loop = vloop.new_loop()
    net = simnet.Net(loop)
    net.ctl_port = 21
    saved = aioftp.client.open_connection
    aioftp.client.open_connection = net.open_connection
    rec = {"entry": "list", "outcome": "typed", "steps": 0, "budget": budget, "entries_returned": 0, "lines_sent": 0, "unparsable": 0, "dots": 0}
    try:
        fs = FakeServer(net, listings, use_mlsd, pasv_reply)

        async def main():
            await net.start_server(fs.handle, "127.0.0.1", 21)
            c = aioftp.Client()
            await c.connect("127.0.0.1", 21)
            await c.login("u", "p")
            res = await c.list("top", recursive=recursive)
            return res

        try:
            if watchdog.POISONED[0]:
                raise vloop.Hang("skipped")
            with watchdog.guard(60):
                res = loop.run_task(main(), budget=budget)
            ok = isinstance(res, list) and all(isinstance(p, pathlib.PurePosixPath) and isinstance(i, dict) for p, i in res)
            rec["outcome"] = "typed" if ok else "illtyped"
            rec["entries_returned"] = len(res)
        except (vloop.Hang, vloop.Budget, watchdog.HardHang) as ex:
            rec["outcome"] = "skipped" if str(ex) == "skipped" else "hang"
        except asyncio.CancelledError:
            rec["outcome"] = "BaseException"
        except Exception:
            rec["outcome"] = "Exception"
        rec["steps"] = min(loop.iterations, budget + 1)
        rec["lines_sent"] = fs.lines_sent
        rec["dots"] = fs.dots_sent
    finally:
        aioftp.client.open_connection = saved
        loop.shutdown()
    return rec


def run_into(chk, tier, seed):
    rng = random.Random(seed + 19)
    cases = []
    cl = aioftp.Client()
    for tname, fi, mk, text in list_lines(rng, tier):
        b = text if isinstance(text, bytes) else text.encode("utf-8")
        # a line whose name field was removed altogether has no name to report (the parsers then answer '.')
        nf = {"unix": 6, "unixd": 6, "unixl": 6, "win": 3, "winf": 3, "mlsx": 3}.get(tname, -1)
        kinds = mk.split("+")
        fields = [fi] if len(kinds) == 1 else [fi // 10, fi % 10]
        named = not any(f == nf and k in ("drop", "empty", "truncate", "space") for f, k in zip(fields, kinds))
        cases.append({"entry": "parse_list_line", "outcome": classify(cl.parse_list_line, b, typed_list, named), "desc": [tname, fi, mk],
                      "steps": 0, "budget": 0, "entries_returned": 0, "lines_sent": 0, "unparsable": 0, "dots": 0})
        cases.append({"entry": "parse_mlsx_line", "outcome": classify(cl.parse_mlsx_line, b, typed_list, named and tname == "mlsx"), "desc": [tname, fi, mk],
                      "steps": 0, "budget": 0, "entries_returned": 0, "lines_sent": 0, "unparsable": 0, "dots": 0})
    payloads = ["227 ok (1,2,3,4,5,6)", "227 (1,2,3,4,5)", "227 ()", "227 no parens", "227 (a,b,c,d,e,f)", "227 (999,1,1,1,999,999)", "227 ((1,2,3,4,5,6))",
                "229 (|||80|)", "229 (||||)", "229 (|||x|)", "229 nothing", "229 (!!!99999999999999999999!)", "229 (|||80|) (|||81|)", "229 (|1|1.2.3.4|80|)",
                '257 "/a"', '257 "', "257 none", '257 """"', '257 "/a""b" x', "257", ""]
    # long runs and broken group ends (what makes a backtracking pattern explode), nesting, repetition
    runs = ["9" * n for n in (24, 48, 200)] + ["1," * n for n in (12, 40)] + ["(" * 30, ")" * 30, "(1,2" * 20, "|" * 60, "|||1" * 20, '"' * 61, '""' * 30 + "x"]
    for r in runs:
        payloads += ["227 ok (127,0,0,1,19," + r, "227 ok (" + r, "227 (" + r + ")", "227 " + r, "229 ok (|||" + r, "229 (|||" + r + "|", "229 (|||" + r + "|)",
                     "229 " + r, '257 "' + r, '257 "/a' + r + '" x', "257 " + r]
    for p in payloads + ["%s%s" % (p, "\x00é") for p in payloads[:21]]:
        for name, fn, typed in (("parse_pasv_response", aioftp.Client.parse_pasv_response, lambda r: isinstance(r, tuple) and isinstance(r[1], int)),
                                ("parse_epsv_response", aioftp.Client.parse_epsv_response, lambda r: isinstance(r, tuple) and isinstance(r[1], int)),
                                ("parse_directory_response", aioftp.Client.parse_directory_response, lambda r: isinstance(r, pathlib.PurePosixPath))):
            cases.append({"entry": name, "outcome": classify(fn, p, typed), "desc": ["payload", 0, p], "steps": 0, "budget": 0,
                          "entries_returned": 0, "lines_sent": 0, "unparsable": 0, "dots": 0})
    for s in ["Jan 01 12:30", "Feb 29 12:30", "Feb 30 12:30", "Jan 01  2001", "", "xx", "Jan 1", "13/13/13", "Feb 29  1900", "Dec 31 24:00", "٣٣٣ ٣٣ ٣٣:٣٣"]:
        cases.append({"entry": "parse_ls_date", "outcome": classify(aioftp.Client.parse_ls_date, s, lambda r: isinstance(r, str)), "desc": ["date", 0, s],
                      "steps": 0, "budget": 0, "entries_returned": 0, "lines_sent": 0, "unparsable": 0, "dots": 0})
    # listers: '.' and '..' entries, directory cycles by name, unparsable lines, for MLSD and LIST servers
    dot = b"Type=cdir; .\r\nType=pdir; ..\r\nType=dir; sub\r\nType=file;Size=1; f\r\n"
    dotl = b"drwxr-xr-x 2 o g 0 Jan 01 12:30 .\r\ndrwxr-xr-x 2 o g 0 Jan 01 12:30 ..\r\ndrwxr-xr-x 2 o g 0 Jan 01 12:30 sub\r\n-rw-r--r-- 1 o g 1 Jan 01 12:30 f\r\n"
    scen = [
        ({"top": dot, "top/sub": dot, "top/sub/sub": b""}, True), ({"top": dotl, "top/sub": dotl, "top/sub/sub": b""}, False),
        ({"*": b"Type=dir; .\r\nType=dir; ..\r\n"}, True), ({"*": b"drwxr-xr-x 2 o g 0 Jan 01 12:30 ..\r\n"}, False),
        ({"top": b"Type=dir; a\r\n", "top/a": b"Type=dir; ../a\r\n", "*": b""}, True),
        ({"top": b"garbage line\r\n-rw-r--r-- 1 o g 1 Jan 01 12:30 f\r\n"}, False),
        ({"top": b"\xff\xfe\r\n"}, True), ({"top": b"\xff\xfe\r\n"}, False), ({"top": b"Type=dir;\r\n"}, True), ({"top": b"\r\n\r\n"}, False),
        ({"top": b"lrwxrwxrwx 1 o g 4 Jan 01 12:30 current - releases\r\n-rw-r--r-- 1 o g 1 Jan 01 12:30 f\r\n"}, False),
        ({"top": b"lrwxrwxrwx 1 o g 4 Jan 01 12:30 a -> b/\r\n-rw-r--r-- 1 o g 1 Jan 01 12:30 f\r\n", "top/a": b""}, False),
        ({"top": b"no newline at end"}, True), ({"top": b"Type=dir; " + b"x" * 70000 + b"\r\n"}, True),
    ]
    for listings, mlsd in scen:
        for recursive in (False, True):
            rec = run_lister(listings, mlsd, recursive)
            rec["desc"] = ["lister", int(mlsd), repr(sorted(listings))[:60]]
            unp = sum(1 for v in listings.values() for ln in v.split(b"\r\n") if ln in (b"garbage line", b"\xff\xfe")) if not mlsd else 0
            rec["unparsable"] = 1 if (not mlsd and b"garbage line" in listings.get("top", b"")) else 0
            cases.append(rec)
    for reply in ["229 (|||notaport|)", "229 nothing here", "229 (|||999999|)", "200 what"]:
        rec = run_lister({"top": b""}, True, False, pasv_reply=reply)
        rec["desc"] = ["pasv-reply", 0, reply]
        cases.append(rec)
    # calls that could not be made because an earlier one blocked the thread for good are left out (not judged)
    cases = [c for c in cases if c["outcome"] not in (None, "skipped")]
    chk.cov["evaluations"] += len(cases)
    bad = judge.judge("ParserContract", [{k: v for k, v in c.items() if k != "desc"} for c in cases], chk)
    for i in sorted(bad):
        c = cases[i]
        chk.violation({"at": "client-" + c["entry"], "outcome": c["outcome"]}, {"case": c}, {"desc": c["desc"]})
    chk.notes["client_side_cases"] = len(cases)
    chk.notes["client_side_rule"] = ("mutation product (6 line templates x fields x %d mutation kinds, pairs in thorough, random byte strings) through "
                                     "parse_list_line / parse_mlsx_line; mutated PASV/EPSV/257 payloads and ls dates; Client.list() against a scripted "
                                     "server whose listings contain '.', '..', name cycles, undecodable and unparsable lines, under a step budget; "
                                     "outcomes judged by ParserContract.tla" % len(MUTS))
