"""C10 - connection limits are exact and slots are always returned."""
import random

from harness import corecheck, gen, guide, mc, report

USERS = [
    {"id": "u1", "login": "u1", "pw": "pw1", "max": 1, "perms": [], "home": [], "base": ["A"]},
    {"id": "u2", "login": "u2", "pw": "", "max": 1, "perms": [], "home": [], "base": ["B"]},
    {"id": "u3", "login": "u3", "pw": "", "max": 2, "perms": [], "home": [], "base": ["B"]},
    {"id": "anon", "login": "", "pw": "", "max": 0, "perms": [], "home": [], "base": ["P"]},
]


def rand_schedule(rng, ns, n):
    st = []
    for _ in range(n):
        s = rng.randrange(1, ns + 1)
        r = rng.random()
        if r < 0.22:
            st.append(["connect", s])
        elif r < 0.5:
            st.append(["send", s, "USER " + rng.choice(["u1", "u1", "u2", "u2", "u3", "nobody", "anonymous"])])
        elif r < 0.62:
            st.append(["send", s, "PASS " + rng.choice(["pw1", "pw1", "bad"])])
        elif r < 0.7:
            st.append(["send", s, "QUIT"])
        elif r < 0.8:
            st.append(["vanish", s] if rng.random() < 0.6 else ["vanish", s, "reset"])
        elif r < 0.86:
            st.append(["send", s, rng.choice(["PWD", "PASV", "FOO", "REST 1"])])
        elif r < 0.9:
            st.append(["sendraw", s, list(b"\xff\xfe\r\n")])
        elif r < 0.96:
            st.append(["tick", rng.choice([500, 1000, 2000, 3000])])
        else:
            st.append(["totimer"])
    if rng.random() < 0.4:
        st.append(["srvclose"])
    else:
        for s in range(1, ns + 1):
            st.append(["vanish", s] if rng.random() < 0.5 else ["send", s, "QUIT"])
    return st


def families(tier, rng):
    fam = []
    n = 350 if tier == "quick" else 4000
    for i in range(n):
        fam.append(("rand", rand_schedule(rng, 4, rng.choice([10, 18, 30]))))
    # every prefix of a few long schedules followed by an abrupt end of everything (cut at every event)
    for i in range(4 if tier == "quick" else 30):
        base = rand_schedule(rng, 4, 24)
        for k in range(1, len(base)):
            fam.append(("cut", base[:k] + [["srvclose"]]))
    # a peer that is gone (closed or reset) a few loop iterations after connecting - before, while or just after the greeting is
    # written - and sessions ending by themselves racing with server.close(); then the limits must still be fully available
    for end in (["vanish", 1], ["vanish", 1, "reset"]):
        for a in range(0, 7):
            fam.append(("early", [["nq", ["connect", 1]], ["iter", a], ["nq", end], ["tick", 0], ["connect", 2], ["connect", 3],
                                  ["send", 2, "USER u1"], ["send", 2, "PASS pw1"], ["send", 2, "QUIT"], ["connect", 4], ["connect", 1], ["srvclose"]]))
            fam.append(("early2", [["connect", 2], ["nq", ["connect", 1]], ["nq", ["connect", 3]], ["iter", a], ["nq", end], ["nq", ["vanish", 3, "reset"]],
                                   ["tick", 0], ["connect", 4], ["connect", 1], ["connect", 3], ["srvclose"]]))
            fam.append(("userrace", [["connect", 1], ["connect", 2], ["send", 2, "USER u1"], ["send", 2, "PASS pw1"], ["nq", ["send", 1, "USER u2"]],
                                     ["iter", a], ["nq", end], ["tick", 0], ["send", 2, "QUIT"], ["connect", 3], ["send", 3, "USER u2"],
                                     ["connect", 4], ["send", 4, "USER u1"], ["send", 4, "PASS pw1"], ["srvclose"]]))
    # a session whose teardown is slow (its transfer worker is held in a backend call) and server.close() during that teardown
    for verb, op, data in (("STOR zz", "close", [1, 2]), ("STOR zz", "write", [1, 2, 3]), ("RETR f", "read", None), ("RETR f", "close", None)):
        for end in (["vanish", 2], ["vanish", 2, "reset"], ["send", 2, "QUIT"]):
            for a in (0, 1, 3):
                st = [["connect", 1], ["connect", 2], ["send", 2, "USER u1"], ["send", 2, "PASS pw1"], ["send", 2, "PASV"], ["dconnect", 2],
                      ["gate", 2, op, 1], ["send", 2, verb]] + ([["dsend", 2, data]] if data else []) + [end, ["iter", a], ["nq", ["srvclose"]], ["iter", 2],
                      ["release", 2], ["tick", 0]]
                fam.append(("closerace", st))
    # a client that has stopped reading its control connection (the reply writer blocks, replies queue up) and then goes away
    for hw in (4, 40):
        for cmds in (["PWD"], ["PWD", "SYST"], ["SYST", "PWD"]):
            for end in (["vanish", 2], ["vanish", 2, "reset"]):
                for a in (0, 2, 5):
                    st = [["connect", 1], ["connect", 2], ["send", 2, "USER u1"], ["send", 2, "PASS pw1"], ["holdctl", 2, hw]]
                    for c in cmds:
                        st += [["nq", ["send", 2, c]], ["iter", 6]]
                    st += [["iter", a], ["nq", end], ["tick", 0], ["connect", 3], ["send", 3, "USER u1"], ["send", 3, "PASS pw1"], ["connect", 4], ["srvclose"]]
                    fam.append(("backlog", st))
    return fam


def overlap_sessions():
    """Account lookups that take a few loop iterations (a user manager that awaits) and USER sent again meanwhile: whichever
    lookup finishes first, every slot taken is given back when the login is superseded or the session ends."""
    out = []
    for pre in ([], [["send", 1, "USER u2"]], [["send", 1, "USER u1"], ["send", 1, "PASS pw1"]]):
        for a in ("u2", "u1", "u3", "nobody"):
            for b in ("u2", "u1", "u3", "nobody"):
                for gap in (0, 1, 3, 6):
                    for end in (["send", 1, "QUIT"], ["vanish", 1], None):
                        out.append([["connect", 1]] + pre + [["nq", ["send", 1, "USER " + a]], ["iter", gap], ["nq", ["send", 1, "USER " + b]], ["tick", 0]]
                                   + ([end] if end else []) + [["connect", 2], ["send", 2, "USER u2"], ["connect", 3], ["send", 3, "USER u1"],
                                                               ["connect", 4], ["send", 4, "USER u3"], ["srvclose"]])
    return out


def dev_cfg(pool):
    return gen.std_cfg(ns=4, users=USERS, srvmax=2, idle=3000)


def run(tier, seed):
    chk = report.Check("C10", tier, seed)
    rng = random.Random(seed)
    mc.into(chk, mc.run_config("MC_Res_q", "MC_Res", must_cover=("ReplyEv", "CtlClose", "LsnTry", "EnvStep")))
    if tier != "quick":
        mc.into(chk, mc.run_config("MC_Res_t", "MC_Res"))
    fam = families(tier, rng)
    scheds = [s for _, s in fam]
    for srvmax, idle in ((1, 3000), (2, 3000), (3, 0), (0, 3000)) if tier != "quick" else ((1, 3000), (2, 0)):
        cfg = gen.std_cfg(ns=4, users=USERS, srvmax=srvmax, idle=idle)
        corecheck.validate(chk, cfg, gen.STD_TREE, scheds, label="limits:srv%d:idle%d" % (srvmax, idle))
    ov = overlap_sessions()
    for tag, delays in (("even", {"*": 2}), ("first-slower", {"u2": 5, "nobody": 6, "*": 1}), ("second-slower", {"u3": 5, "u1": 4, "*": 1})):
        corecheck.validate(chk, gen.std_cfg(ns=4, users=USERS, srvmax=0, slow_user=delays), gen.STD_TREE, ov if tier != "quick" else ov[::3],
                           label="overlapped-user:" + tag)
    gs, steps = guide.behaviours("MC_GuideRes", "MC_GuideRes", 1500 if tier == "quick" else 20000, 60, seed + 13)
    corecheck.validate(chk, gen.std_cfg(ns=3, users=guide.RES_USERS, srvmax=2, usepool=True, ports=[3001]), guide.RES_TREE, gs, label="tlc-guided")
    chk.notes["tlc_generated_behaviours"] = len(gs)
    chk.cov["rule"] = ("seeded interleavings of connect / USER (same, other, unknown, over-limit) / PASS right,wrong / QUIT / vanish / "
                       "undecodable line / idle timeout / server.close() over 4 concurrent sessions, plus every prefix of long "
                       "schedules followed by server.close(); server and per-user counters compared with the model at every "
                       "quiescent instant; distinct = distinct schedules x limit settings")
    chk.cov["distinct_nontrivial"] = len({repr(s) for s in scheds}) * (2 if tier == "quick" else 4)
    chk.sample(scheds[0])
    return chk.finish()
