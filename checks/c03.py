"""C03 - nothing is served before a completed login; re-USER drops the old login."""
import itertools
import random

from harness import corecheck, gen, mc, report

S = 1
ALPHA = {
    "user_u1": [["send", S, "USER u1"]], "user_u2": [["send", S, "USER u2"]], "user_no": [["send", S, "USER nobody"]],
    "user_anon": [["send", S, "USER anonymous"]], "pass_ok": [["send", S, "PASS pw1"]], "pass_bad": [["send", S, "PASS nope"]],
    "pass_prefix": [["send", S, "PASS pw"]], "pass_longer": [["send", S, "PASS pw1x"]], "pass_empty": [["send", S, "PASS"]], "pass_case": [["send", S, "PASS PW1"]],
    "pwd": [["send", S, "PWD"]], "cwd": [["send", S, "CWD d"]], "cdup": [["send", S, "CDUP"]], "mkd": [["send", S, "MKD zz"]],
    "rmd": [["send", S, "RMD d/e"]], "dele": [["send", S, "DELE f"]], "mlst": [["send", S, "MLST f"]],
    "rnfr": [["send", S, "RNFR f"]], "rnto": [["send", S, "RNTO y"]], "rest": [["send", S, "REST 1"]],
    "pasv": [["send", S, "PASV"]], "epsv": [["send", S, "EPSV"]], "dconn": [["dconnect", S]],
    "retr": [["send", S, "RETR f"], ["dconnect", S], ["deof", S]],
    "stor": [["send", S, "STOR zz"], ["dconnect", S], ["dsend", S, [5, 6]], ["deof", S]],
    "appe": [["send", S, "APPE f"], ["dconnect", S], ["dsend", S, [5]], ["deof", S]],
    "list": [["send", S, "LIST"], ["dconnect", S], ["deof", S]], "mlsd": [["send", S, "MLSD"], ["dconnect", S], ["deof", S]],
    "type": [["send", S, "TYPE I"]], "abor": [["send", S, "ABOR"]], "syst": [["send", S, "SYST"]], "foo": [["send", S, "XYZZY"]],
    "quit": [["send", S, "QUIT"]],
}
KEYS = sorted(ALPHA)


def build(seq):
    st = [["connect", S]]
    for k in seq:
        st += ALPHA[k]
    # epilogue: whatever state we are in, a few probes (one guarded verb of each kind) and a transfer
    st += [["send", S, "PWD"], ["send", S, "MLST f"], ["send", S, "PASV"], ["dconnect", S], ["send", S, "RETR f"], ["deof", S]]
    return st


def families(tier, rng):
    seqs = [()] + [(a,) for a in KEYS] + [(a, b) for a in KEYS for b in KEYS]
    n3 = 1500 if tier == "quick" else 24000
    seqs += [tuple(rng.choice(KEYS) for _ in range(3)) for _ in range(n3)]
    # histories built around login state changes
    logins = ["user_u1", "user_u2", "user_no", "user_anon", "pass_ok", "pass_bad", "pass_prefix", "pass_longer", "pass_empty", "pass_case"]
    others = [k for k in KEYS if k not in logins]
    n4 = 1500 if tier == "quick" else 24000
    for _ in range(n4):
        seq = []
        for _ in range(rng.choice([3, 4, 5, 6])):
            seq.append(rng.choice(logins) if rng.random() < 0.55 else rng.choice(others))
        seqs.append(tuple(seq))
    fam = [("hist", build(s)) for s in seqs]
    # a transfer command accepted under one login whose data connection is made only after the login state has changed
    # (or after other commands): the worker must not serve anybody else's tree, and nothing at all without a login
    xfer = {"retr": "RETR f", "stor": "STOR zz", "appe": "APPE f", "list": "LIST", "mlsd": "MLSD", "list_d": "LIST d", "retr_rel": "RETR d/g"}
    inter = [["USER u1"], ["USER u2"], ["USER nobody"], ["USER anonymous"], ["USER u1", "PASS pw1"], ["USER u1", "PASS nope"], ["CWD d"], ["PWD"],
             ["USER u2", "CWD h"], ["REST 1"], ["XYZZY"]]
    for first in (["USER u1", "PASS pw1"], ["USER u2"], ["USER anonymous"]):
        for pasv in ("PASV", "EPSV"):
            for xk, xc in xfer.items():
                for it in inter:
                    st = [["connect", S]] + [["send", S, c] for c in first] + [["send", S, pasv], ["send", S, xc]] + [["send", S, c] for c in it]
                    st += [["dconnect", S]] + ([["dsend", S, [5, 6]]] if xk in ("stor", "appe") else []) + [["deof", S]]
                    st += [["send", S, "PWD"], ["send", S, "MLST f"]]
                    fam.append(("parked", st))
    return fam


SLOW_USERS = [
    {"id": "u1", "login": "u1", "pw": "pw1", "max": 0, "perms": [], "home": [], "base": ["A"]},
    {"id": "u3", "login": "u3", "pw": "pw3", "max": 0, "perms": [], "home": [], "base": ["B"]},
    {"id": "u2", "login": "u2", "pw": "", "max": 0, "perms": [], "home": ["h"], "base": ["B"]},
]


def slow_auth_sessions():
    """The password check takes a few loop iterations (a user manager that awaits) and USER arrives again meanwhile: the
    pending PASS was sent for the previous account and authorises nobody else."""
    out = []
    for first, pw in (("u1", "pw1"), ("u1", "nope"), ("u3", "pw3")):
        for second in ("u3", "u1", "u2", "nobody"):
            for gap in (0, 1, 2, 3, 5, 9):
                st = [["connect", 1], ["send", 1, "USER " + first], ["nq", ["send", 1, "PASS " + pw]], ["iter", gap], ["nq", ["send", 1, "USER " + second]],
                      ["tick", 0], ["send", 1, "PWD"], ["send", 1, "MLST f"], ["send", 1, "PASS pw3"], ["send", 1, "PWD"]]
                out.append(st)
    return out


def slow_user_sessions():
    """The account lookup takes a few loop iterations and the next command arrives meanwhile: a second USER supersedes the
    first whichever lookup finishes first, and nothing is served on the strength of the login the pending USER has dropped."""
    out = []
    tail = [["tick", 0], ["send", 1, "PWD"], ["send", 1, "MLST f"], ["send", 1, "PASS pw3"], ["send", 1, "PWD"]]
    for pre in ([], [["send", 1, "USER u2"]], [["send", 1, "USER u1"], ["send", 1, "PASS pw1"]]):
        for first in ("u2", "u1", "nobody"):
            for second in ("u3", "u1", "u2", "nobody"):
                for gap in (0, 1, 2, 4, 7):
                    out.append([["connect", 1]] + pre + [["nq", ["send", 1, "USER " + first]], ["iter", gap], ["nq", ["send", 1, "USER " + second]]] + tail)
            for v in ("PWD", "TYPE I", "SYST"):
                for gap in (0, 1, 3):
                    out.append([["connect", 1]] + pre + [["nq", ["send", 1, "USER " + first]], ["iter", gap], ["nq", ["send", 1, v]]] + tail)
    return out


LIMITED_USERS = [
    {"id": "u1", "login": "u1", "pw": "pw1", "max": 1, "perms": [], "home": [], "base": ["A"]},
    {"id": "u3", "login": "u3", "pw": "", "max": 1, "perms": [], "home": [], "base": ["B"]},
    {"id": "u2", "login": "u2", "pw": "", "max": 0, "perms": [], "home": ["h"], "base": ["B"]},
]


def refused_user_sessions():
    """USER refused because the account's connection limit is reached (530): the session has no user - a PASS that follows is out
    of sequence, whatever the password, and nothing is served; neither after the slot has become free again."""
    out = []
    probes = [["send", 1, "PWD"], ["send", 1, "MLST f"], ["send", 1, "MKD zz"], ["send", 1, "PASV"]]
    for acct, holder in (("u1", [["send", 2, "USER u1"], ["send", 2, "PASS pw1"]]), ("u1", [["send", 2, "USER u1"]]), ("u3", [["send", 2, "USER u3"]])):
        for pw in ("pw1", "nope", "", None):
            for before in ([], [["send", 1, "USER u2"]], [["send", 1, "USER u2"], ["send", 1, "CWD /h"]]):
                st = [["connect", 2]] + holder + [["connect", 1]] + before + [["send", 1, "USER " + acct]]
                if pw is not None:
                    st.append(["send", 1, ("PASS " + pw).strip()])
                st += probes + [["send", 2, "QUIT"]]
                if pw is not None:
                    st.append(["send", 1, ("PASS " + pw).strip()])
                st += probes + [["send", 1, "USER " + acct], ["send", 1, "PASS pw1"], ["send", 1, "PWD"]]
                out.append(st)
    return out


def slow_logout_sessions():
    """The logout notification of the account being left takes a few loop iterations; PASS arrives meanwhile - with the password
    of the old account, of the new one, or a wrong one.  It never logs the session in as the new account."""
    out = []
    tail = [["tick", 0], ["send", 1, "PWD"], ["send", 1, "MLST f"], ["send", 1, "MKD zz"], ["send", 1, "PASS pw3"], ["send", 1, "PWD"]]
    for pre in ([["send", 1, "USER u1"], ["send", 1, "PASS pw1"]], [["send", 1, "USER u1"]], [["send", 1, "USER u2"]]):
        for y in ("u3", "u1", "u2", "nobody"):
            for pw in ("pw1", "pw3", "nope"):
                for gap in (0, 1, 2, 4):
                    out.append([["connect", 1]] + pre + [["nq", ["send", 1, "USER " + y]], ["iter", gap], ["nq", ["send", 1, "PASS " + pw]]] + tail)
    return out


def overtaken_by_user():
    """A path command is suspended in its j-th backend call when USER arrives and is answered at once (any backend that really
    awaits makes room for this).  The command was read under the old login: it may finish there or be refused, but what it does must
    not be decided - and done - in the tree of the account USER named.  (The shipped server does exactly that: known finding
    user-overtakes-command.)"""
    out = []
    for pre in ([["send", 1, "USER u2"]], [["send", 1, "USER anonymous"]], [["send", 1, "USER u1"], ["send", 1, "PASS pw1"]]):
        for cmd in ("MKD n", "DELE f", "RMD d", "CWD d", "RNFR f", "MKD /d/n", "DELE /d/g"):
            for y in ("u1", "u2", "nobody", "anonymous"):
                for j in (1, 2):
                    out.append([["connect", 1]] + pre + [["gate", 1, None, j], ["send", 1, cmd], ["send", 1, "USER " + y], ["release", 1], ["send", 1, "PWD"],
                               ["send", 1, "MLST n"], ["send", 1, "PASS pw1"], ["send", 1, "MLST n"], ["send", 1, "MLST /h/n"], ["send", 1, "MLST f"]])
    return out


def twin_sessions():
    """Two control sessions, one of them not (or not yet, or no longer) logged in, sending the same command in the same instant -
    in both orders, and one to three event-loop iterations apart."""
    out = []
    states = {"no-user": [], "needs-pass": [["send", 1, "USER u1"]], "bad-pass": [["send", 1, "USER u1"], ["send", 1, "PASS nope"]],
              "unknown-user": [["send", 1, "USER nobody"]], "relogin-pending": [["send", 1, "USER u2"], ["send", 1, "USER u1"]]}
    verbs = ["PWD", "MKD zz", "CWD d", "PASV", "EPSV", "MLST f", "DELE f", "RNFR f", "TYPE I", "RMD d", "CDUP", "ABOR"]
    for sname, pre in states.items():
        for v in verbs:
            for gap in (0, 1, 2, 3):
                for order in ((1, 2), (2, 1)):
                    st = [["connect", 1]] + pre + [["connect", 2], ["send", 2, "USER u2"], ["nq", ["send", order[0], v]], ["iter", gap],
                          ["nq", ["send", order[1], v]], ["tick", 0], ["send", 1, "PWD"], ["send", 2, "PWD"], ["send", 1, "MLST f"]]
                    out.append(st)
    return out


def run(tier, seed):
    chk = report.Check("C03", tier, seed)
    rng = random.Random(seed)
    mc.into(chk, mc.run_config("MC_Seq_q" if tier == "quick" else "MC_Seq_t", "MC_Seq",
                               must_cover=("ReplyEv", "WorkerStep", "LsnTry", "DataClose", "CtlClose")))
    fam = families(tier, rng)
    scheds = [s for _, s in fam]
    # user tables: the standard one (anonymous present) and one without an anonymous entry
    cfg1 = gen.std_cfg(ns=1)
    corecheck.validate(chk, cfg1, gen.STD_TREE, scheds, label="hist:anon")
    cfg2 = gen.std_cfg(ns=1, users=[u for u in gen.STD_USERS if u["id"] != "anon"])
    parked = [s for f, s in fam if f == "parked"]
    sub = scheds if tier != "quick" else scheds[: len(KEYS) ** 2 + len(KEYS) + 1] + scheds[-600 - len(parked):]
    corecheck.validate(chk, cfg2, gen.STD_TREE, sub, label="hist:noanon")
    # the order of the accounts in the table means nothing: anonymous first, and in the middle
    for order, tag in (([2, 0, 1], "anon-first"), ([0, 2, 1], "anon-middle")):
        cfg3 = gen.std_cfg(ns=1, users=[gen.STD_USERS[i] for i in order])
        corecheck.validate(chk, cfg3, gen.STD_TREE, scheds[: len(KEYS) + 1] + scheds[len(KEYS) + 1: len(KEYS) ** 2: 7] + parked[::3], label="hist:" + tag)
    sl = slow_auth_sessions()
    for k in (1, 4):
        corecheck.validate(chk, gen.std_cfg(ns=1, users=SLOW_USERS, slow_auth=k), gen.STD_TREE, sl, label="slow-auth:%d" % k)
    su = slow_user_sessions()
    for tag, delays in (("even", {"*": 3}), ("first-slower", {"u2": 6, "nobody": 5, "*": 1}), ("second-slower", {"u3": 6, "u1": 4, "*": 1})):
        corecheck.validate(chk, gen.std_cfg(ns=1, users=SLOW_USERS, slow_user=delays), gen.STD_TREE, su if tier != "quick" or tag != "even" else su[::2],
                           label="slow-user:" + tag)
    corecheck.validate(chk, gen.std_cfg(ns=1, users=SLOW_USERS, slow_user={"*": 2}, slow_auth=3), gen.STD_TREE, sl + su[::3], label="slow-both")
    corecheck.validate(chk, gen.std_cfg(ns=2, users=LIMITED_USERS), gen.STD_TREE, refused_user_sessions(), label="refused-user")
    lo = slow_logout_sessions()
    for k in (3, 7):
        corecheck.validate(chk, gen.std_cfg(ns=1, users=SLOW_USERS, slow_logout=k), gen.STD_TREE, lo if tier != "quick" else lo[::2], label="slow-logout:%d" % k)
    ou = overtaken_by_user()
    for b in ("memory", "async"):
        corecheck.validate(chk, gen.std_cfg(ns=1, backend=b), gen.STD_TREE, ou if tier != "quick" else ou[::2], label="overtaken-by-user:" + b)
    tw = twin_sessions()
    corecheck.validate(chk, gen.std_cfg(ns=2, users=[u for u in gen.STD_USERS if u["id"] != "anon"]), gen.STD_TREE, tw if tier != "quick" else tw[::2], label="twins")
    chk.cov["rule"] = ("all command histories of length <= 2 and seeded ones of length 3..6 over %d command kinds (every login "
                       "variant x every guarded verb incl. transfers with a data connection), each followed by probes; the trace "
                       "specification rejects any backend call, listener, worker or tree/cwd change made while not logged in; "
                       "two sessions, one not logged in, sending the same command in the same instant; distinct = distinct schedules" % len(KEYS))
    chk.cov["distinct_nontrivial"] = len({repr(s) for s in scheds}) + len({repr(s) for s in sub})
    chk.sample(scheds[700])
    return chk.finish()
