"""C05 - command dispatcher conforms to the sequential session model (FtpCore)."""
import random

from harness import corecheck, gen, mc, report


def run(tier, seed):
    chk = report.Check("C05", tier, seed)
    mc.into(chk, mc.run_config("MC_Seq_q" if tier == "quick" else "MC_Seq_t", "MC_Seq", must_cover=("ReplyEv", "WorkerStep", "LsnTry")))
    rng = random.Random(seed * 7919 + 5)
    n = 400 if tier == "quick" else 6000
    cfg = gen.std_cfg(ns=1)
    scheds = [gen.rand_session(rng, 1, steps=rng.choice([6, 10, 16])) for _ in range(n)]
    corecheck.validate(chk, cfg, gen.STD_TREE, scheds, label="rand_session")
    chk.cov["rule"] = "seeded random one-at-a-time raw sessions over all verbs; distinct = distinct schedules"
    chk.cov["distinct_nontrivial"] = len({repr(s) for s in scheds})
    chk.sample(scheds[0])
    return chk.finish()
