"""C02 - every client-supplied path stays inside the user's base directory."""
import itertools
import json
import os
import pathlib
import random
import re
import shutil
import tempfile

import aioftp

from harness import corecheck, gen, mc, report, tlc

# segment alphabet: each segment is a list of atoms joined by a backslash
POSIX_SEGS = [["a"], ["b"], [".."], ["."], [""], [".h"], ["..."], ["a b"], ["a", "b"], ["..", "x"], ["C:"], ["é"]]
WIN_SEGS = [["a"], [".."], ["."], [""], ["a", "b"], ["..", "x"], ["a", "..", "..", "x"], ["C:"], ["C:x"], ["D:y"], ["", "x"],
            ["", "", "h", "s"], [".h"], ["CON"], ["a:b"], ["x", ""]]
DRIVE = re.compile(r"^[A-Za-z]:|:")


def seg_str(seg):
    return "\\".join(seg)


def mk_arg(prefix, segs, trail):
    return prefix + "/".join(seg_str(s) for s in segs) + (trail if segs else "")


def atoms(part):
    return part.split("\\")


def one_case(flavour, base, cwd, prefix, segs, trail):
    user = aioftp.User(home_path="/hm/e")    # (where a login starts has no say in how a path resolves)
    user.base_path = base
    cwdp = pathlib.PurePosixPath("/" + "/".join(seg_str(s) for s in cwd))
    conn = aioftp.Connection(current_directory=cwdp, user=user)
    arg = mk_arg(prefix, segs, trail)
    real, virt = aioftp.Server.get_paths(conn, arg)
    nb = len(base.parts)
    escaped = not (real.parts[:nb] == base.parts)
    rel = list(real.parts[nb:]) if not escaped else []
    raw = arg.split("/")
    absflag = arg.startswith("/")
    return {"flavour": flavour, "cwd": [list(s) for s in cwd], "abs": absflag,
            "segs": [atoms(x) for x in (raw[1:] if absflag else raw)],
            "virt": [atoms(x) for x in virt.parts[1:]], "rel": rel, "relatoms": [atoms(x) for x in rel],
            "escaped": escaped, "arg": arg, "base": str(base)}


def gen_cases(tier, rng):
    cases = []
    maxlen = 3 if tier == "quick" else 4
    pos_bases = [pathlib.PurePosixPath("/srv/ftp"), pathlib.PurePosixPath("rel/base"), pathlib.PurePosixPath("."),
                 pathlib.PurePosixPath("/srv/ftp/nested/deep"), pathlib.PurePosixPath("/")]
    cwds = [[], [["a"]], [["a"], ["b"]], [["a"], ["b"], ["c"]], [[".h"]], [["a", "b"]]]
    for n in range(0, maxlen + 1):
        for segs in itertools.product(POSIX_SEGS, repeat=n):
            for prefix in ("", "/", "//", "///") if n <= 2 or tier != "quick" else ("", "/"):
                cwd = cwds[rng.randrange(len(cwds))] if n == maxlen else None
                for cw in ([cwd] if cwd is not None else cwds[:4]):
                    base = pos_bases[rng.randrange(len(pos_bases))]
                    cases.append(("posix", base, cw, prefix, list(segs), rng.choice(["", "/"])))
    # climbing: every working-directory depth against every number of leading '..' around and beyond that depth, plain and with
    # detours ("x/../.."), with and without a tail
    deep = [[], [["a"]], [["a"], ["b"]], [["a"], ["b"], ["c"]], [["a"], ["b"], ["c"], ["d"]], [["a"], ["a"], ["a"], ["a"], ["a"]]]
    for cw in deep:
        for ups in range(0, 2 * len(cw) + 3):
            for tail in ([], [["x"]], [["a"]], [["x"], [".."]], [["."]]):
                for lead in ([], [["x"], [".."]], [["."]]):
                    for base in pos_bases[:2]:
                        cases.append(("posix", base, cw, "", lead + [[".."]] * ups + tail, ""))
    win_bases = [pathlib.PureWindowsPath("C:\\ftp"), pathlib.PureWindowsPath("C:\\ftp\\users\\u"), pathlib.PureWindowsPath("data")]
    wcwds = [[], [["a"]], [["a"], ["b"]], [["a", "b"]]]
    wl = 2 if tier == "quick" else 3
    for n in range(0, wl + 1):
        for segs in itertools.product(WIN_SEGS, repeat=n):
            for prefix in ("", "/"):
                for cw in wcwds if n < wl else [wcwds[rng.randrange(len(wcwds))]]:
                    cases.append(("windows", win_bases[rng.randrange(len(win_bases))], cw, prefix, list(segs), ""))
    return cases


def judge(cases, chk):
    """TLC evaluates PathModel on the recorded pairs; returns indices of bad pairs."""
    bad = set()
    chunk = 40000
    for off in range(0, len(cases), chunk):
        part = cases[off:off + chunk]
        wd = tempfile.mkdtemp(prefix="verif-c02-")
        try:
            cf = os.path.join(wd, "cases.json")
            with open(cf, "w") as fh:
                json.dump([{k: v for k, v in c.items() if k not in ("arg", "base")} for c in part], fh)
            rc, out, wall = tlc.run("PathModel", "SPECIFICATION Spec\nINVARIANT Judge\nCHECK_DEADLOCK FALSE\n", workdir=wd,
                                    env={"CASE_FILE": cf}, workers=1, timeout=1200)
            if not tlc.check_ok(out):
                raise RuntimeError("PathModel run failed:\n" + out[-3000:])
            chk.add_tlc(tlc.stats(out))
            for m in re.finditer(r'<<"BAD(DEF)?", (\d+)>>', out):
                if m.group(1):
                    raise RuntimeError("PathModel definition property failed on case %s" % part[int(m.group(2)) - 1])
                bad.add(off + int(m.group(2)) - 1)
        finally:
            shutil.rmtree(wd, ignore_errors=True)
    return bad


def path_sessions(tier, rng):
    n = 150 if tier == "quick" else 1500
    args = gen.PATH_ARGS + ["a\\b", "..\\x", "C:", ".../f", "d/./../d/g", "/../../..", "d/e/../../../../f", "//f", "///d//e"]
    out = []
    for _ in range(n):
        s = 1
        st = [["connect", s]] + [["send", s, "USER u1"], ["send", s, "PASS pw1"]] if rng.random() < 0.6 else [["connect", s], ["send", s, "USER u2"]]
        for _ in range(rng.choice([6, 10])):
            r = rng.random()
            a = rng.choice(args)
            if r < 0.3:
                st += [["send", s, "CWD " + a], ["send", s, "PWD"]]
            elif r < 0.4:
                st += [["send", s, "CDUP"], ["send", s, "PWD"]]
            elif r < 0.75:
                st.append(["send", s, (rng.choice(["MKD", "RMD", "DELE", "RNFR", "RNTO", "MLST"]) + " " + a).strip()])
            else:
                verb = rng.choice(["RETR", "STOR", "APPE", "LIST", "MLSD"])
                st += gen.transfer(s, verb, a, connect=rng.choice(["before", "after"]), data=[1] if verb in ("STOR", "APPE") else None)
        out.append(st)
    # state that names a location survives only as long as the login it was formed under: a pending RNFR, the working
    # directory and a parked transfer across USER (same user, other user with another base directory, unknown user)
    for first, second in (("u2", "u1"), ("u1", "u2"), ("u2", "u2"), ("u2", "anonymous"), ("anonymous", "u2"), ("u1", "anonymous"), ("anonymous", "u1")):
        lg = lambda u: [["send", 1, "USER " + u]] + ([["send", 1, "PASS pw1"]] if u == "u1" else [])
        for src in ("f", "/f", "h/f", "/h/f", "pub", "d/g"):
            for dst in ("y", "/y", "../y", "h/y", "d/y"):
                out.append([["connect", 1]] + lg(first) + [["send", 1, "RNFR " + src]] + lg(second) + [["send", 1, "RNTO " + dst], ["send", 1, "PWD"],
                           ["send", 1, "MLST " + dst], ["send", 1, "RNFR " + src], ["send", 1, "RNTO " + dst]])
        # the very same request again as the first thing the next login does (from the same working directory, if the homes agree)
        for cmd in ("MLST pub", "MLST f", "MLST /f", "DELE f", "MKD q", "CWD d", "RNFR f", "MLST /h/f", "MLST h/f", "DELE /h/f", "MLST ."):
            out.append([["connect", 1]] + lg(first) + [["send", 1, cmd]] + lg(second) + [["send", 1, cmd], ["send", 1, "PWD"], ["send", 1, cmd]])
        for verb, arg in (("RETR", "f"), ("RETR", "pub"), ("STOR", "zz"), ("LIST", ""), ("MLSD", "/h"), ("RETR", "/h/f")):
            out.append([["connect", 1]] + lg(first) + gen.transfer(1, verb, arg, data=[5] if verb == "STOR" else None) + lg(second)
                       + gen.transfer(1, verb, arg, data=[6, 6] if verb == "STOR" else None) + [["send", 1, "PWD"]])
        for cwd in ("h", "d", "d/e"):
            out.append([["connect", 1]] + lg(first) + [["send", 1, "CWD " + cwd], ["send", 1, "PWD"]] + lg(second) + [["send", 1, "PWD"], ["send", 1, "MLST f"],
                       ["send", 1, "MKD zz"], ["send", 1, "DELE f"]])
    return out


def pipelined_sessions():
    """A request is suspended in its j-th backend query when CWD / CDUP arrives and is handled at once: the request still checks,
    addresses and operates on one and the same location - its own."""
    out = []
    reqs = ["DELE /d/g", "DELE f", "MLST /f", "MLST d/g", "MKD /d/n", "MKD n", "RMD /d/e", "RMD d/e", "RNFR /f", "CWD d", "CWD /d/e"]
    moves = ["CWD /d", "CWD /d/e", "CWD /", "CDUP", "CWD d", "CWD /f", "CWD /nowhere", "CWD e"]
    login = [["connect", 1], ["send", 1, "USER u1"], ["send", 1, "PASS pw1"]]
    tail = [["release", 1], ["send", 1, "PWD"], ["send", 1, "MLST /f"], ["send", 1, "MLST /d/g"], ["send", 1, "MLST /d/e"], ["send", 1, "MLST /d/n"], ["send", 1, "MLST n"]]
    for start in (None, "CWD d"):
        for req in reqs:
            for mv in moves:
                for j in (1, 2):
                    out.append(login + ([["send", 1, start]] if start else []) + [["gate", 1, None, j], ["send", 1, req], ["send", 1, mv]] + tail)
        for mv in moves:
            out.append(login + ([["send", 1, start]] if start else []) + [["send", 1, "RNFR /f"], ["gate", 1, None, 1], ["send", 1, "RNTO /d/y"], ["send", 1, mv]]
                       + tail + [["send", 1, "MLST /d/y"]])
    return out


def run(tier, seed):
    chk = report.Check("C02", tier, seed)
    rng = random.Random(seed)
    mc.into(chk, mc.run_config("MC_Seq_q", "MC_Seq", must_cover=("ReplyEv",)))
    # 1. function level: the real Server.get_paths judged by PathModel
    specs = gen_cases(tier, rng)
    cases = [one_case(*c) for c in specs]
    bad = judge(cases, chk)
    chk.cov["evaluations"] += len(cases)
    chk.notes["function_level_cases"] = len(cases)
    for i in sorted(bad):
        c = cases[i]
        hostile = any(DRIVE.search(a) for seg in c["segs"] + c["cwd"] for a in seg) or any(seg[:1] == [""] and len(seg) > 1 for seg in c["segs"])
        sig = {"at": "get_paths", "flavour": c["flavour"], "class": "drive-or-rooted-segment" if hostile else "plain"}
        chk.violation(sig, {"case": c}, {"flavour": c["flavour"], "base": c["base"], "cwd": c["cwd"], "arg": c["arg"]})
    # 2. wire level: every path handed to the backend is confined, PWD after CWD is the model's cwd
    scheds = path_sessions(tier, rng)
    for b in (["memory"] if tier == "quick" else ["memory", "path"]):
        corecheck.validate(chk, gen.std_cfg(ns=1, backend=b), gen.STD_TREE, scheds, label="paths:" + b)
    ps = pipelined_sessions()
    corecheck.validate(chk, gen.std_cfg(ns=1), gen.STD_TREE, ps if tier != "quick" else ps[::2], label="pipelined")
    scheds = scheds + ps
    chk.cov["rule"] = ("function level: all path arguments of <= %d segments over a segment alphabet (names, '..', '.', empty, dot-prefixed, "
                       "blank, non-ASCII, backslash / drive-like / UNC-like forms) x prefixes '', '/', '//', '///' x working directories "
                       "x base directories (absolute, relative, nested, POSIX and Windows flavours), each pair judged by PathModel.tla "
                       "in TLC; wire level: seeded path-heavy sessions validated against FtpCore (backend paths confined, PWD = model "
                       "cwd); distinct = distinct (flavour, base, cwd, argument) tuples + schedules" % (3 if tier == "quick" else 4))
    chk.cov["distinct_nontrivial"] = len({(c["flavour"], c["base"], json.dumps(c["cwd"]), c["arg"]) for c in cases}) + len(scheds)
    chk.sample({k: cases[len(cases) // 2][k] for k in ("flavour", "base", "cwd", "arg", "virt", "rel")})
    chk.sample(scheds[0])
    return chk.finish()
