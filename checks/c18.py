"""C18 - the shipped storage backends are interchangeable."""
import asyncio
import json
import os
import pathlib
import random
import re
import shutil
import tempfile

from aioftp import errors, pathio

from harness import corecheck, gen, mc, report, spyfs, tlc

PATHS = [["d"], ["d", "f"], ["d", "e"], ["f"], ["g"], ["missing", "x"], ["f", "x"], []]
INIT = {"d": [["d"]], "f": [{"p": ["d", "f"], "c": [1, 2, 3]}, {"p": ["f"], "c": [9]}]}


def rand_op(rng, nhandles):
    r = rng.random()
    p = rng.choice(PATHS[:-1]) if r > 0.05 else []
    if nhandles and r < 0.3:
        h = rng.randrange(1, nhandles + 1)
        k = rng.random()
        if k < 0.3:
            return {"op": "write", "h": h, "data": [rng.randrange(20, 30) for _ in range(rng.choice([1, 2, 3]))]}
        if k < 0.55:
            return {"op": "read", "h": h, "n": rng.choice([1, 2, 5])}
        if k < 0.75:
            return {"op": "seek", "h": h, "off": rng.choice([0, 1, 2, 5])}
        return {"op": "close", "h": h}
    if r < 0.42:
        return {"op": rng.choice(["exists", "is_dir", "is_file", "stat", "list"]), "p": p}
    if r < 0.55:
        return {"op": "mkdir", "p": p, "parents": rng.random() < 0.5, "existok": rng.random() < 0.5}
    if r < 0.63:
        return {"op": "rmdir", "p": p}
    if r < 0.71:
        return {"op": "unlink", "p": p}
    if r < 0.85:
        return {"op": "open", "p": p, "mode": rng.choice(["rb", "wb", "ab", "r+b"])}
    return {"op": "rename", "p": p, "q": rng.choice(PATHS[:-1])}


def all_single_ops():
    out = []
    for p in PATHS[:-1]:
        for op in ("exists", "is_dir", "is_file", "stat", "list", "rmdir", "unlink"):
            out.append({"op": op, "p": p})
        for pa in (False, True):
            for eo in (False, True):
                out.append({"op": "mkdir", "p": p, "parents": pa, "existok": eo})
        for m in ("rb", "wb", "ab", "r+b"):
            out.append({"op": "open", "p": p, "mode": m, "h": 1})
        for q in PATHS[:-1]:
            out.append({"op": "rename", "p": p, "q": q})
    return out


def gen_seqs(tier, rng):
    singles = all_single_ops()
    seqs = [[o] for o in singles]
    if tier != "quick":
        seqs += [[a, b] for a in singles for b in singles if rng.random() < 0.25]
    n = 500 if tier == "quick" else 25000
    for _ in range(n):
        s, nh, live = [], 0, []
        for _ in range(rng.choice([3, 4, 5, 6])):
            o = rand_op(rng, len(live))
            if "h" in o and o["op"] != "open":
                o["h"] = live[(o["h"] - 1) % len(live)]
                if o["op"] == "close":
                    live.remove(o["h"])
            if o["op"] == "open":
                nh += 1
                o["h"] = nh
                o["_new"] = True
            s.append(o)
            if o["op"] == "open":
                live.append(nh)  # provisional; dropped at run time if the open fails
        seqs.append(s)
    return seqs


async def run_seq(pio, root, seq, flush=True):
    """Execute one operation sequence on backend instance pio rooted at root; returns observed records."""
    out = []
    handles = {}
    P = lambda segs: root.joinpath(*segs) if segs else root
    for o in seq:
        rec = {k: v for k, v in o.items() if not k.startswith("_")}
        rec.setdefault("p", [])
        rec.update({"ok": True, "val": "", "got": []})
        op = o["op"]
        try:
            if op in ("exists", "is_dir", "is_file"):
                rec["val"] = "true" if await getattr(pio, op)(P(o["p"])) else "false"
            elif op == "mkdir":
                await pio.mkdir(P(o["p"]), parents=o["parents"], exist_ok=o["existok"])
            elif op in ("rmdir", "unlink"):
                await getattr(pio, op)(P(o["p"]))
            elif op == "rename":
                await pio.rename(P(o["p"]), P(o["q"]))
            elif op == "stat":
                st = await pio.stat(P(o["p"]))
                import stat as _s
                rec["val"] = "dir" if _s.S_ISDIR(st.st_mode) else str(st.st_size)
            elif op == "list":
                names = sorted(x.name for x in await pio.list(P(o["p"])))
                rec["val"] = str(len(names))
                rec["names"] = names
            elif op == "open":
                handles[o["h"]] = await pio._open(P(o["p"]), mode=o["mode"])
            elif o["h"] not in handles:
                rec["skip"] = True
            elif op == "seek":
                await pio.seek(handles[o["h"]], o["off"])
            elif op == "write":
                await pio.write(handles[o["h"]], bytes(o["data"]))
                if flush:   # (the contract run makes written bytes visible at once; the raw run leaves buffering to the backend)
                    handles[o["h"]].flush()
            elif op == "read":
                rec["got"] = list(await pio.read(handles[o["h"]], o["n"]))
            elif op == "close":
                await pio.close(handles.pop(o["h"]))
        except errors.PathIOError:
            rec["ok"] = False
        if rec.get("skip"):
            continue
        snap = spyfs.snapshot_fs(root)
        rec["hastree"] = True
        rec["tree"] = {"d": sorted([list(k) for k, v in snap.items() if v[0] == "d"]),
                       "f": sorted(({"p": list(k), "c": list(v[1])} for k, v in snap.items() if v[0] == "f"), key=lambda x: x["p"])}
        out.append(rec)
    for f in handles.values():
        try:
            f.close()
        except Exception:
            pass
    return out


def populate(root):
    for d in INIT["d"]:
        root.joinpath(*d).mkdir(parents=True)
    for f in INIT["f"]:
        root.joinpath(*f["p"]).write_bytes(bytes(f["c"]))


def api_level(chk, tier, rng):
    seqs = gen_seqs(tier, rng)
    recs = {"path": [], "async": []}
    base = tempfile.mkdtemp(prefix="verif-c18-")
    try:
        loop = asyncio.new_event_loop()
        for i, seq in enumerate(seqs):
            for name in ("path", "async"):
                root = pathlib.Path(base, "%s%d" % (name, i))
                root.mkdir()
                populate(root)
                pio = pathio.PathIO() if name == "path" else pathio.AsyncPathIO(executor=spyfs.InlineExecutor())
                recs[name].append(loop.run_until_complete(run_seq(pio, root, seq)))
                shutil.rmtree(root, ignore_errors=True)
        loop.close()
    finally:
        shutil.rmtree(base, ignore_errors=True)
    # (a0) the same sequences without any help from the harness (no flush after a write): what a second look at a file that is
    #      still open for writing sees must also be the same on both backends
    raw = [(i, seq) for i, seq in enumerate(seqs) if any(o["op"] == "write" for o in seq)]
    base = tempfile.mkdtemp(prefix="verif-c18-")
    try:
        loop = asyncio.new_event_loop()
        for i, seq in raw:
            got = {}
            for name in ("path", "async"):
                root = pathlib.Path(base, "%sraw%d" % (name, i))
                root.mkdir()
                populate(root)
                pio = pathio.PathIO() if name == "path" else pathio.AsyncPathIO(executor=spyfs.InlineExecutor())
                got[name] = loop.run_until_complete(run_seq(pio, root, seq, flush=False))
                shutil.rmtree(root, ignore_errors=True)
            chk.cov["evaluations"] += 1
            if got["path"] != got["async"]:
                a, b = got["path"], got["async"]
                k = next((j for j in range(min(len(a), len(b))) if a[j] != b[j]), min(len(a), len(b)))
                chk.violation({"at": "api-differential-unflushed", "op": (a[k] if k < len(a) else {}).get("op")},
                              {"path": a[k] if k < len(a) else None, "async": b[k] if k < len(b) else None}, {"sequence": seq})
        loop.close()
    finally:
        shutil.rmtree(base, ignore_errors=True)
    chk.cov["evaluations"] += len(seqs)
    # (a) the two file-system backends must agree with each other, step by step
    for i, seq in enumerate(seqs):
        a, b = recs["path"][i], recs["async"][i]
        if a != b:
            k = next((j for j in range(min(len(a), len(b))) if a[j] != b[j]), min(len(a), len(b)))
            chk.violation({"at": "api-differential", "op": (a[k] if k < len(a) else {}).get("op")},
                          {"path": a[k] if k < len(a) else None, "async": b[k] if k < len(b) else None}, {"sequence": seq})
    # (b) and with the contract FsModel states (a disagreement here means the *specification* is wrong)
    wd = tempfile.mkdtemp(prefix="verif-c18-tlc-")
    try:
        bad = []
        chunk = 4000
        for off in range(0, len(seqs), chunk):
            part = [[{"tree": INIT}] + r for r in recs["path"][off:off + chunk]]
            cf = os.path.join(wd, "seqs.json")
            with open(cf, "w") as fh:
                json.dump(part, fh)
            rc, out, wall = tlc.run("FsModel", "SPECIFICATION Spec\nCONSTRAINT Reached\nPOSTCONDITION Report\nCHECK_DEADLOCK FALSE\n",
                                    workdir=wd, env={"CASE_FILE": cf}, workers=1, timeout=1800)
            chk.add_tlc(tlc.stats(out))
            res = {int(m.group(1)): (int(m.group(2)), int(m.group(3))) for m in re.finditer(r'<<"RES", (\d+), (\d+), (\d+)>>', out)}
            if len(res) != len(part):
                raise RuntimeError("FsModel run failed:\n" + out[-3000:])
            for t, (m, n) in res.items():
                if m < n:
                    bad.append((off + t - 1, m))
        if bad:
            i, m = bad[0]
            raise RuntimeError("FsModel disagrees with both file-system backends (specification error) on sequence %r at op %d: %r"
                               % (seqs[i], m, recs["path"][i][m - 1] if m - 1 < len(recs["path"][i]) else None))
    finally:
        shutil.rmtree(wd, ignore_errors=True)
    chk.notes["api_sequences"] = len(seqs)
    return seqs


def rename_session(rng):
    s = 1
    st = [["connect", s], ["send", s, "USER u1"], ["send", s, "PASS pw1"]]
    args = ["f", "d", "d/g", "d/e", "x", "d/x", "f/x", "x/y", "d/e/z", "d/g/z", ".", "x/y/z", "d/q/r/s"]
    for _ in range(rng.choice([5, 9])):
        r = rng.random()
        if r < 0.4:
            st += [["send", s, "RNFR " + rng.choice(args)], ["send", s, "RNTO " + rng.choice(args)]]
        elif r < 0.6:
            st.append(["send", s, rng.choice(["MKD ", "RMD ", "DELE ", "MLST "]) + rng.choice(args)])
        else:
            verb = rng.choice(["STOR", "APPE", "RETR", "LIST", "MLSD"])
            st += gen.transfer(s, verb, rng.choice(args), connect=rng.choice(["before", "after"]),
                               data=[rng.randrange(1, 9) for _ in range(rng.choice([0, 1, 3]))] if verb in ("STOR", "APPE") else None,
                               rest=rng.choice([None, None, "1", "4"]) if verb not in ("LIST", "MLSD") else None)
    return st


def rename_corners():
    """RNFR src; optionally something that removes the source or creates/removes the target; RNTO dst - over a small path universe
    (files, directories, missing names, paths through files, source = target)."""
    out = []
    s = 1
    login = [["connect", s], ["send", s, "USER u1"], ["send", s, "PASS pw1"]]
    paths = ["f", "g", "d", "d/g", "d/e", "x", "d/x", "f/x"]
    for src in paths:
        for dst in paths:
            for mid in (None, "DELE " + src, "RMD " + src, "MKD " + dst, "DELE " + dst):
                st = login + [["send", s, "RNFR " + src]] + ([["send", s, mid]] if mid else []) + [["send", s, "RNTO " + dst],
                             ["send", s, "MLST " + src], ["send", s, "MLST " + dst], ["send", s, "RNTO " + dst]]
                out.append(st)
    return out


def deep_mkdir_sessions():
    """MKD of a path whose last one, two or three parents are missing (the backends create the whole chain or none of it)."""
    login = [["connect", 1], ["send", 1, "USER u1"], ["send", 1, "PASS pw1"]]
    out = []
    for p in ("x", "x/y", "x/y/z", "x/y/z/w", "d/q/r", "d/q/r/s", "/d/e/a/b/c", "f/a/b", "d/g/a/b"):
        out.append(login + [["send", 1, "MKD " + p], ["send", 1, "MLST " + p], ["send", 1, "MLST " + p.rsplit("/", 1)[0]], ["send", 1, "MKD " + p],
                            ["send", 1, "RMD " + p], ["send", 1, "MLST x"], ["send", 1, "MLST d/q"]])
    return out


def through_file_sessions():
    """Every kind of (partial) access to a file, directly followed by every verb on a path *through* that file."""
    out = []
    s = 1
    login = [["connect", s], ["send", s, "USER u1"], ["send", s, "PASS pw1"]]
    touches = {
        "none": [],
        "rest-stor": gen.transfer(s, "STOR", "f", data=[9], rest="1"),
        "rest-stor-end": gen.transfer(s, "STOR", "f", data=[9], rest="5"),
        "rest-appe": gen.transfer(s, "APPE", "f", data=[9], rest="2"),
        "rest-retr": gen.transfer(s, "RETR", "f", rest="3"),
        "retr": gen.transfer(s, "RETR", "f"),
        "stor": gen.transfer(s, "STOR", "f", data=[1, 2]),
        "appe": gen.transfer(s, "APPE", "f", data=[3]),
        "mlst": [["send", s, "MLST f"]],
    }
    probes = ["CWD f/x", "MLST f/x", "DELE f/x", "MKD f/x", "RMD f/x", "RNFR f/x", "MLST f/x/y", "CWD f/..", "MLST f/../f"]
    for tname, t in touches.items():
        for p in probes:
            out.append(login + t + [["send", s, p], ["send", s, p], ["send", s, "MLST f"]])
        for verb in ("RETR f/x", "STOR f/x", "LIST f/x", "MLSD f", "LIST f"):
            v, a = verb.split(" ")
            out.append(login + t + gen.transfer(s, v, a, data=[7] if v == "STOR" else None) + [["send", s, "MLST f"]])
        out.append(login + t + [["send", s, "RNFR f"], ["send", s, "RNTO f/x"], ["send", s, "RNFR d"], ["send", s, "RNTO f/x"], ["send", s, "MLST f"]])
    return out


def transcript(result):
    rep, data = [], []
    for e in result["trace"]:
        if e["ev"] == "Reply":
            rep.append(e["code"])
        elif e["ev"] == "DataOut":
            data.append(e["data"])
        elif e["ev"] == "Listing":
            data.append(sorted((x["name"], x["kind"], x["size"] if x["kind"] == "file" else 0) for x in e["entries"]))
    tree = [e["tree"] for e in result["trace"] if e["ev"] == "Snap"][-1]
    return rep, [d for d in data if not (d and isinstance(d[0], int) and False)], tree


def ftp_level(chk, tier, rng):
    n = 100 if tier == "quick" else 2500
    scheds = [rename_session(rng) for _ in range(n)] + [gen.rand_session(rng, 1, steps=rng.choice([6, 10])) for _ in range(n)]
    scheds += through_file_sessions()
    scheds += deep_mkdir_sessions()
    scheds += rename_corners() if tier != "quick" else rename_corners()[::2]
    # two sessions with handles on the same file at the same time (a transfer held in its j-th read / write while the other
    # session stats, lists or downloads that file)
    obs = gen.observer_family()
    for ns, group, tag in ((1, scheds, "ftp:"), (2, obs, "ftp2:")):
        outs = {}
        for b in ("memory", "path", "async"):
            cfg = gen.std_cfg(ns=ns, backend=b)
            outs[b] = corecheck.validate(chk, cfg, gen.STD_TREE, group, label=tag + b)
        for i, sch in enumerate(group):
            ts = {}
            for b in outs:
                rep, data, tree = transcript(outs[b][i][1])
                # listings are compared as entry sets (order and time stamps are backend business)
                listing = "LIST" in repr(sch) or "MLSD" in repr(sch)
                ts[b] = (rep, tree) if ns == 1 or listing else (rep, [d for d in data if d and isinstance(d[0], int)], tree)
            if not (ts["memory"] == ts["path"] == ts["async"]):
                chk.violation({"at": "ftp-differential"}, ts, {"schedule": sch})
    chk.notes["ftp_sequences_per_backend"] = len(scheds) + len(obs)
    return scheds + obs


def run(tier, seed):
    chk = report.Check("C18", tier, seed)
    rng = random.Random(seed)
    mc.into(chk, mc.run_config("MC_Seq_q", "MC_Seq", must_cover=("ReplyEv",)))
    seqs = api_level(chk, tier, rng)
    scheds = ftp_level(chk, tier, rng)
    chk.cov["rule"] = ("API level: every single operation and seeded sequences of 3..6 operations (exists/is_dir/is_file/mkdir with "
                       "parents,exist_ok/rmdir/unlink/list/stat/open rb,wb,ab,r+b + seek/read/write/close/rename) over a universe with "
                       "files, directories, missing parents and paths through files, executed on PathIO and AsyncPathIO, compared step "
                       "by step with each other and judged by FsModel.tla in TLC; FTP level: rename/transfer-heavy and general seeded "
                       "sessions replayed on all three backends, each validated against FtpCore and compared with each other (reply "
                       "codes, final tree); distinct = distinct sequences")
    chk.cov["distinct_nontrivial"] = len({json.dumps(s, sort_keys=True) for s in seqs}) + len({repr(s) for s in scheds})
    chk.sample(seqs[-1])
    chk.sample(scheds[0])
    return chk.finish()
