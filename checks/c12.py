"""C12 - a session that ends, at any point and for any reason, releases everything it held."""
import random

from harness import corecheck, gen, mc, report


def families(tier, rng):
    fam = []
    users = ["u1", "u2"] if tier == "quick" else ["u1", "u2", "anon"]
    # 1. every script of the corpus cut after every step (peer vanishes / server closes)
    for u in users:
        for name, sc in gen.corpus(1, u).items():
            for sch in gen.cuts(sc, 1, how=("vanish", "vanishall", "reset", "srvclose")):
                fam.append(("cut:%s:%s" % (u, name), sch))
    # 2. cut while the j-th backend call of the script is in flight (gated)
    for u in users[:1] if tier == "quick" else users:
        for name, sc in gen.corpus(1, u).items():
            for j in range(1, 26 if tier == "quick" else 40):
                for end in (["vanish", 1], ["vanish", 1, "reset"], ["srvclose"]):
                    pre = sc[:1] + [["gate", 1, None, j], ["ongate", [end, ["release", 1]], "stop"]] + sc[1:]
                    fam.append(("gatecut:%s:%s" % (u, name), pre))
    # 3. cut while the passive listener is being opened
    for point in ("prebind", "postbind"):
        for end in (["vanish", 1], ["srvclose"]):
            for pasv in ("PASV", "EPSV"):
                sch = [["connect", 1], ["send", 1, "USER u2"], ["lgate", 1, point], ["ongate", [end, ["lrelease", 1]], "stop"],
                       ["send", 1, pasv], ["send", 1, "PWD"]]
                fam.append(("lsncut:%s" % point, sch))
    # 4. loop-iteration-granular races between a session ending by itself and server.close(), and a peer that is gone
    #    (closed or reset) before the server has written its greeting
    pre = {"fresh": [["connect", 1]], "login": [["connect", 1], ["send", 1, "USER u2"]],
           "pasv": [["connect", 1], ["send", 1, "USER u2"], ["send", 1, "PASV"], ["dconnect", 1]],
           "retr": [["connect", 1], ["send", 1, "USER u2"], ["send", 1, "PASV"], ["send", 1, "RETR f"]]}
    for pname, p in pre.items():
        for end in (["send", 1, "QUIT"], ["vanish", 1], ["vanish", 1, "reset"], ["sendraw", 1, list(b"\xff\r\n")]):
            for a in range(0, 9 if tier == "quick" else 16):
                fam.append(("endrace:%s" % pname, p + [["nq", end], ["iter", a], ["nq", ["srvclose"]], ["tick", 0]]))
    # ... and a peer that closes or resets the connection a few loop iterations after a command that ends the session
    # (or any other command) has been sent: replies still queued can no longer be written
    for pname, p in pre.items():
        for cmd in ("QUIT", "PWD", "EPSV 1", "XYZZY"):
            for end in (["vanish", 1], ["vanish", 1, "reset"]):
                for a in range(0, 6 if tier == "quick" else 12):
                    fam.append(("gonerace:%s" % pname, p + [["nq", ["send", 1, cmd]], ["iter", a], ["nq", end], ["tick", 0]]))
    # 5. the session ends (or the server is closed) while a download / listing is stuck on a receiver that has stopped reading
    for verb in ("RETR f", "LIST", "MLSD d", "RETR d/g"):
        for hw in (1, 4):
            for end in (["vanish", 1], ["vanish", 1, "reset"], ["srvclose"], ["send", 1, "QUIT"], ["sendraw", 1, list(b"\xff\r\n")]):
                fam.append(("heldcut", [["connect", 1], ["send", 1, "USER u1"], ["send", 1, "PASS pw1"], ["send", 1, "PASV"], ["dconnect", 1], ["hold", 1, hw],
                                        ["send", 1, verb], end, ["tick", 0]]))
    # 6. the client stops reading its control connection: the reply writer blocks after the next reply, further replies queue up;
    #    then the session ends in every way
    for hw in (4, 40):
        for cmds in (["PWD"], ["PWD", "SYST"], ["PWD", "TYPE I"], ["SYST", "PWD"]):
            for end in (["vanish", 1], ["vanish", 1, "reset"], ["srvclose"], ["sendraw", 1, list(b"\xff\r\n")]):
                for a in (0, 3):
                    st = [["connect", 1], ["send", 1, "USER u2"], ["holdctl", 1, hw]]
                    for c in cmds:
                        st += [["nq", ["send", 1, c]], ["iter", 6]]
                    st += [["iter", a], ["nq", end], ["tick", 0]] + ([["connect", 1], ["send", 1, "USER u2"], ["send", 1, "QUIT"]] if end[0] == "vanish" else [])
                    fam.append(("backlog", st))
    # 7. server.close() while a session's teardown is slow (its worker is held in a backend call) and somebody tries to connect
    #    meanwhile: a closing server admits nobody
    for verb, op, data in (("STOR zz", "close", [1, 2]), ("RETR f", "read", None), ("STOR zz", "write", [4])):
        for a in (1, 2, 4, 7):     # (the close() task has taken its first step: the listener is closed)
            st = [["connect", 1], ["send", 1, "USER u1"], ["send", 1, "PASS pw1"], ["send", 1, "PASV"], ["dconnect", 1], ["gate", 1, op, 1], ["send", 1, verb]]
            st += ([["dsend", 1, data]] if data else []) + [["nq", ["srvclose"]], ["iter", a], ["nq", ["connect", 2]], ["iter", 5], ["release", 1], ["tick", 0]]
            fam.append(("newcomer", st))
    for end in (["vanish", 1], ["vanish", 1, "reset"]):
        for a in range(0, 6):
            fam.append(("early", [["nq", ["connect", 1]], ["iter", a], ["nq", end], ["tick", 0], ["connect", 1], ["send", 1, "USER u2"],
                                  ["send", 1, "QUIT"]]))
    return fam


def run(tier, seed):
    chk = report.Check("C12", tier, seed)
    mc.into(chk, mc.run_config("MC_Res_q" if tier == "quick" else "MC_Res_t", "MC_Res", must_cover=("ReplyEv", "CtlClose")))
    mc.into(chk, mc.run_config("MC_Fault_q" if tier == "quick" else "MC_Fault_t", "MC_Seq", must_cover=("ReplyEv", "CtlClose")))
    rng = random.Random(seed)
    fam = families(tier, rng)
    for pool in (False, True):
        cfg = gen.std_cfg(ns=2, usepool=pool, ports=[3001, 3002] if pool else [])
        corecheck.validate(chk, cfg, gen.STD_TREE, [s for _, s in fam], label="cuts" + ("+pool" if pool else ""))
    # sessions the server ends itself because no passive port can be opened (every port of the pool busy, for good or for a while)
    pv = [s for _, s in fam if "PASV" in repr(s) or "EPSV" in repr(s)]
    for plan in ({"3001": "inuse", "3002": "inuse"}, {"3001": ["inuse", "inuse", "ok"], "3002": ["inuse", "ok", "inuse"]}):
        corecheck.validate(chk, gen.std_cfg(ns=2, usepool=True, ports=[3001, 3002], port_plan=plan), gen.STD_TREE, pv if tier != "quick" else pv[::4],
                           label="cuts+busy-pool:%d" % len(str(plan)))
    # general sessions of several accounts at once on the same files, interleaved by the seeded scheduler with backend calls held at
    # random, any of them cut (closed, reset) anywhere
    ch = [gen.chaos(rng, rng.choice([2, 3])) for _ in range(150 if tier == "quick" else 3000)]
    corecheck.validate(chk, gen.std_cfg(ns=3), gen.STD_TREE, ch, label="chaos")
    corecheck.validate(chk, gen.std_cfg(ns=3, usepool=True, ports=[3001, 3002], srvmax=2, backend="path"), gen.STD_TREE, ch, label="chaos:pool:path")
    # ABOR delivered 0..6 loop iterations after a transfer command on the executor-style backend (its calls complete one iteration
    # later, so ABOR can reach a transfer task that has not taken its first step), the data connection made beforehand; then the
    # session ends: the connection nobody took is closed like everything else
    ab = []
    for verb, data in (("STOR n1", [1, 2, 3]), ("RETR f", None), ("LIST", None), ("MLSD d", None), ("APPE f", [7])):
        for a in range(0, 7 if tier == "quick" else 10):
            for end in (["send", 1, "QUIT"], ["vanish", 1], ["srvclose"]):
                ab.append([["connect", 1], ["send", 1, "USER u1"], ["send", 1, "PASS pw1"], ["send", 1, "PASV"], ["dconnect", 1],
                           ["nq", ["send", 1, verb]], ["iter", a], ["nq", ["send", 1, "ABOR"]], ["tick", 0], ["send", 1, "PWD"], end, ["tick", 0]])
    corecheck.validate(chk, gen.std_cfg(ns=2, backend="async", block=2), gen.STD_TREE, ab, label="abor-start:async")
    # a server listening on an IPv6 address (PASV opens a listener, answers 503 and ends the session): everything that mentions PASV
    v6 = [s for _, s in fam if "PASV" in repr(s)]
    corecheck.validate(chk, gen.std_cfg(ns=2, usepool=True, ports=[3001, 3002], v6=True), gen.STD_TREE, v6 if tier != "quick" else v6[::3], label="cuts+v6")
    chk.cov["rule"] = ("scripted corpus (all verbs, all transfer kinds) x cut after every step / while the j-th backend call "
                       "is in flight / while the passive listener is being opened, by peer EOF or server.close(); "
                       "ledger compared at every quiescent instant; distinct = distinct schedules")
    chk.cov["distinct_nontrivial"] = len({repr(s) for _, s in fam}) * 2
    chk.sample(fam[len(fam) // 2][1])
    return chk.finish()
