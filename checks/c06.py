"""C06 - reply framing: what the server encodes is what the client decodes."""
import asyncio
import itertools
import random

import aioftp
from aioftp import errors
from aioftp.common import ThrottleStreamIO

from harness import judge, report, simnet, vloop

KINDS = ["", "plain", "-dash", " lead", "123start", "250 looks final", "250-looks cont", "251 other final", "251-other cont",
         "12 two", "é ж", "a  b", "x" * 40, "٣٣٣ d", "250", "250-", "€uro", "名前 x", "\U0001F600 smile", "aфb", "ab€",
         # characters str.splitlines() treats as line boundaries although the protocol does not
         "v\x0bt", "f\x0cf", "fs\x1cgs\x1drs\x1ex", "nel\x85x", "ls\u2028ps\u2029x"]


def chars(s):
    return list(s)


class Rig:
    """One control connection between the real encoder (Server.write_response) and decoder (Client.parse_response)."""

    def __init__(self, encoding):
        self.loop = vloop.new_loop()
        self.net = simnet.Net(self.loop)
        self.net.ctl_port = 21
        self.srv_stream = None
        self.server = aioftp.Server(encoding=encoding)
        self.client = aioftp.Client(encoding=encoding)
        self.written = bytearray()

        async def cb(reader, writer):
            self.srv_stream = ThrottleStreamIO(reader, writer)

        async def setup():
            await self.net.start_server(cb, "127.0.0.1", 21)
            r, w = await self.net.open_connection("127.0.0.1", 21)
            self.client.stream = ThrottleStreamIO(r, w, throttles={"_": self.client.throttle})
            await asyncio.sleep(0)

        self.loop.run_task(setup())
        self.conn = self.net.conns[-1]
        self.conn.srv.manual = True
        self.conn.srv.on_write = self.written.extend
        self.results = []
        self.task = self.loop.spawn(self.collect())

    async def collect(self):
        while True:
            try:
                code, info = await self.client.parse_response()
                self.results.append({"ok": True, "code": chars(str(code)), "info": [chars(x) for x in info]})
            except errors.StatusCodeError as e:
                self.results.append({"ok": False, "code": chars(str(e.expected_codes[0])), "info": [chars(x) for x in e.info]})
            except Exception as e:  # any other exception out of the decoder is never what the specification says
                self.results.append({"ok": False, "code": chars("EXC"), "info": [chars(type(e).__name__)]})
                # a decoder that has given the connection up (closed it, or sees it closed) would fail again at once, for ever
                try:
                    dead = self.client.stream.writer.transport.is_closing() or self.client.stream.reader.at_eof()
                except Exception:
                    dead = True
                if dead:
                    return
                await asyncio.sleep(0)

    def send_replies(self, replies):
        async def w():
            for code, lines, lst in replies:
                await self.server.write_response(self.srv_stream, code, lines, lst)
        del self.written[:]
        self.loop.run_task(w())
        return bytes(self.written)

    def send_raw(self, data):
        self.conn.srv.write(data)
        return data

    def deliver(self, cuts):
        """Deliver what the server wrote in the segments given by the cut offsets."""
        total = len(self.conn.srv.outbuf)
        prev = 0
        for c in sorted(set(x for x in cuts if 0 < x < total)) + [total]:
            self.conn.srv.deliver(c - prev)
            prev = c
            self.loop.run_quiescent()
        n = len(self.results)
        out, self.results = self.results[:], []
        return out

    def close(self):
        self.task.cancel()
        self.loop.shutdown()


def wire_lines(data, encoding):
    text = data.decode(encoding)
    assert text.endswith("\r\n")
    return [chars(x) for x in text[:-2].split("\r\n")]


def gen_replies(tier, rng):
    out = []
    maxn = 4 if tier != "quick" else 4
    for code in ("250", "251"):
        for lst in (False, True):
            for n in range(2 if lst else 1, maxn + 1):
                combos = list(itertools.product(KINDS, repeat=n))
                if len(combos) > (600 if tier == "quick" else 6000):
                    combos = rng.sample(combos, 600 if tier == "quick" else 6000)
                for lines in combos:
                    out.append((code, list(lines), lst))
    # replies much larger than any block or buffer size (8192 bytes, 64 KiB), in characters and - differently - in bytes
    for lst in (False, True):
        for n, kinds in ((150, ["é ж" * 9]), (300, ["plain text", "é ж"]), (700, ["名前 x", "ab€", "x" * 40]), (40, ["ж" * 230]), (2500, ["é"])):
            out.append(("250", [kinds[i % len(kinds)] + (" %d" % i) for i in range(n)], lst))
    return out


def cut_patterns(total, rng, tier):
    pats = [[], list(range(1, total))]
    pats.append([rng.randrange(1, total)] if total > 1 else [])
    if tier != "quick":
        pats.append(sorted(rng.sample(range(1, total), min(total - 1, 3))) if total > 3 else [])
        pats.append(list(range(2, total, 2)))
    return pats


def run(tier, seed):
    chk = report.Check("C06", tier, seed)
    rng = random.Random(seed)
    cases = []
    def fits(line, encoding):
        try:
            line.encode(encoding)
            return True
        except UnicodeEncodeError:
            return False

    for encoding in ("utf-8", "cp1251", "latin-1"):
        rig = Rig(encoding)
        try:
            for code, lines, lst in gen_replies(tier, rng):
                if encoding != "utf-8" and not all(fits(l, encoding) for l in lines):
                    continue
                second = ("220", [rng.choice(["ok", "", "-x", "220 y"])], False) if rng.random() < 0.7 else ("226", ["a", "226 b", "c"], True)
                replies = [(code, lines, lst), second]
                for pat in cut_patterns(0, rng, tier)[:0] or [None]:
                    pass
                data = rig.send_replies(replies)
                decoded = rig.deliver(rng.choice(cut_patterns(len(data), rng, tier)))
                cases.append({"kind": "reply", "replies": [{"code": chars(c), "lines": [chars(x) for x in ls], "list": l} for c, ls, l in replies],
                              "wire": wire_lines(data, encoding), "decoded": decoded, "enc": encoding})
                # the same bytes again under every other segmentation class
                for pat in cut_patterns(len(data), rng, tier)[: (2 if tier == "quick" else 5)]:
                    rig.send_raw(data)
                    cases.append({"kind": "wire", "wire": wire_lines(data, encoding), "decoded": rig.deliver(pat), "enc": encoding})
        finally:
            rig.close()
    # hand-made streams: continuation lines with another code, then a healthy reply
    hostile = []
    for a, b in itertools.product(["250", "251"], repeat=2):
        for mid in (["%s-x" % b], ["%s y" % b], [" body", "%s-z" % b], ["text", "%s done" % b]):
            for after in (["220 fine"], ["220-m", "220 end"]):
                hostile.append(["%s-start" % a] + mid + (["%s end" % a] if mid[-1].startswith(b + "-") or not mid[-1][:3].isdigit() else []) + after)
    for w in hostile:
        rig = Rig("utf-8")
        try:
            data = ("\r\n".join(w) + "\r\n").encode()
            rig.send_raw(data)
            pat = rng.choice(cut_patterns(len(data), rng, tier))
            cases.append({"kind": "wire", "wire": [chars(x) for x in w], "decoded": rig.deliver(pat), "enc": "utf-8"})
        finally:
            rig.close()
    # masks
    alphabet = ["1", "2", "x", "X", "*", "٣", "5"]
    for n in (1, 2, 3):
        for mask in itertools.product(alphabet, repeat=n):
            for code in itertools.product(["1", "2", "5"], repeat=3):
                c = aioftp.Code("".join(code))
                cases.append({"kind": "mask", "code": list(code), "mask": list(mask), "result": bool(c.matches("".join(mask)))})
    # command lines through the real Server.parse_command
    cmds = ["USER a", "user  a b ", "PaSs x y", "PWD", "pwd   ", "RETR  lead", "STOR a\tb", "X", "NOOP\t", "mkd é ж", "CWD a  ", "Rest 12"]
    loop = vloop.new_loop()
    try:
        srv = aioftp.Server()
        for line in cmds:
            rd = asyncio.StreamReader(loop=loop)
            rd.feed_data((line + "\r\n").encode())
            rd.feed_eof()

            class S:
                async def readline(self, rd=rd):
                    return await rd.readline()
            verb, arg = loop.run_task(srv.parse_command(S()))
            cases.append({"kind": "cmd", "line": chars(line), "verb": chars(verb), "arg": chars(arg)})
    finally:
        loop.shutdown()
    chk.cov["evaluations"] += len(cases)
    bad = judge.judge("Framing", [{k: v for k, v in c.items() if k != "enc"} for c in cases], chk, chunk=4000)
    for i in sorted(bad):
        c = cases[i]
        sig = {"at": "framing", "kind": c["kind"]}
        chk.violation(sig, {"case": c}, {"case": c})
    chk.cov["traces_validated_against_impl"] = len([c for c in cases if c["kind"] in ("reply", "wire")])
    chk.cov["rule"] = ("replies = 2 codes x plain/listing mode x 1..3 lines drawn from %d line kinds (empty, leading dash/space/digits, "
                       "header and continuation look-alikes with the same and another code, two-digit prefix, non-ASCII, non-ASCII "
                       "digits, interior blanks, long), each followed by a second reply, written by the real Server.write_response, "
                       "delivered under several segmentations (one piece, byte by byte, random cuts) and decoded by the real "
                       "Client.parse_response, in utf-8 and cp1251; hand-made streams with mismatching continuation codes; all "
                       "code/mask pairs over a 7-symbol mask alphabet; command lines through Server.parse_command; every record "
                       "judged by Framing.tla in TLC; distinct = distinct records" % len(KINDS))
    import json
    chk.cov["distinct_nontrivial"] = len({json.dumps(c, sort_keys=True) for c in cases})
    chk.sample(cases[3])
    return chk.finish()
