"""C07 - listings and stats report the backend's truth (MLSD, MLST, LIST fallback)."""
import calendar
import datetime
import json
import os
import random
import time

import aioftp
import aioftp.client
import aioftp.server

from harness import clientdrv, corecheck, gen, judge, mc, report
from harness import world as W

HALF = 15778476
ZONES = [("UTC", 0), ("XST-5", 5 * 3600), ("XST8", -8 * 3600)]


def special_nows(tier):
    years = [1991, 1992, 1999, 2000, 2001, 2023, 2024, 2025, 2036] if tier != "quick" else [1992, 2000, 2001, 2024, 2025]
    out = []
    for y in years:
        days = [(1, 1), (2, 28), (3, 1), (6, 30), (7, 2), (12, 31)]
        if calendar.isleap(y):
            days.append((2, 29))
        for m, d in days:
            for h, mi, s in ((0, 0, 0), (12, 0, 0), (23, 59, 59)):
                out.append(calendar.timegm((y, m, d, h, mi, s, 0, 0, 0)))
    return out


def deltas(tier):
    D = 86400
    ds = [0, 59, 60, 3600, D, 28 * D, 29 * D, 30 * D, 31 * D, 365 * D - D, 365 * D, 366 * D, 2 * 365 * D, 10 * 365 * D]
    step = 60 * (97 if tier == "quick" else 11)
    for k in range(-2 * D, 2 * D + 1, step):
        ds.append(HALF + k)
    ds += [-60, -D, -HALF, -365 * D]
    return ds


def fn_cases(args):
    zone, off, tier, seed = args
    os.environ["TZ"] = zone
    time.tzset()
    rng = random.Random(seed)
    out = []
    for now in special_nows(tier):
        for d in deltas(tier):
            mtime = now - d
            if mtime < 0 or mtime >= 2 ** 31 - 1:
                continue
            delta = rng.choice([0, 1, 61])
            s = aioftp.Server.build_list_mtime(mtime, now)
            try:
                p = aioftp.Client.parse_ls_date(s, now=datetime.datetime.fromtimestamp(now + delta))
                parsed = [int(p[0:4]), int(p[4:6]), int(p[6:8]), int(p[8:10]), int(p[10:12])]
            except Exception as e:  # a formatter/parser pair that cannot even talk to each other
                parsed = [0, 0, 0, 0, 0]
            out.append({"kind": "ls", "mtime": mtime, "nowf": now, "nowp": now + delta, "off": off, "parsed": parsed, "text": s, "zone": zone})
            m = aioftp.Server._format_mlsx_time(mtime)
            out.append({"kind": "mlsx", "mtime": mtime, "stamp": [int(m[0:4]), int(m[4:6]), int(m[6:8]), int(m[8:10]), int(m[10:12]), int(m[12:14])]})
    return out


class TimeProxy:
    def __init__(self, now):
        self._now = now

    def time(self):
        return self._now

    def __getattr__(self, name):
        return getattr(time, name)


def datetime_proxy(now):
    class DT(datetime.datetime):
        @classmethod
        def now(cls, tz=None):
            return datetime.datetime.fromtimestamp(now)

    class Mod:
        datetime = DT

        def __getattr__(self, name):
            return getattr(datetime, name)

    return Mod()


NAMES = ["a", "file.txt", "two words", "x;y=z", "-dash", "250 ok", "é", " lead", "a  b", "Jan 01 name"]


def listing_case(args):
    zone, off, seed, fallback = args[:4]
    native = args[4] if len(args) > 4 else None   # None: times and sizes spoofed in stat results; else the backend's own times are set
    os.environ["TZ"] = zone
    time.tzset()
    rng = random.Random(seed)
    now = rng.choice(special_nows("quick")) + rng.randrange(0, 3600)
    n = rng.choice([0, 1, 2, 4, 7])
    names = rng.sample(NAMES, n)
    truth = []
    D = 86400
    for nm in names:
        typ = rng.choice(["file", "file", "dir"])
        size = rng.choice([0, 1, 5, 2 ** 31, 2 ** 40, 123456789012])
        mt = now - rng.choice([0, 59, 3600, D, 30 * D, HALF - 3 * D, HALF + 3 * D, 365 * D, 5 * 365 * D, 100 * D + 17])
        if native:
            size = 1
        truth.append({"name": nm, "type": typ, "size": str(size) if typ == "file" else "0", "mtime": max(0, mt)})
    users = [{"id": "u1", "login": "u1", "pw": "", "max": 0, "perms": [], "home": [], "base": ["R"]}]
    cfg = gen.std_cfg(ns=1, users=users, backend=native or "memory")
    tree = {"d": [["R"], ["R", "dir"]] + [["R", "dir", t["name"]] for t in truth if t["type"] == "dir"],
            "f": [{"p": ["R", "dir", t["name"]], "c": [1]} for t in truth if t["type"] == "file"]}
    by = {t["name"]: t for t in truth}
    res = {}
    saved = (aioftp.server.time, aioftp.client.datetime)

    async def sc(factory, w):
        def hook(path, st):
            t = by.get(path.name)
            if t is None or path.parent.name != "dir":
                return st
            return st._replace(st_size=int(t["size"]) if t["type"] == "file" else st.st_size, st_mtime=t["mtime"], st_ctime=t["mtime"])
        if not native:
            w.ctl.stat_hook = hook
        elif native == "memory":
            # the backend's own time stamps: modification time as wanted, creation time something else
            def walk(nodes, inside):
                for n in nodes:
                    if inside and n.name in by:
                        n.mtime = by[n.name]["mtime"]
                        n.ctime = max(0, by[n.name]["mtime"] - 98765)
                    if n.type == "dir":
                        walk(n.content, n.name == "dir")
            walk(w.ctl.state, False)
        else:
            for t in truth:
                os.utime(str(w.root.joinpath("R", "dir", t["name"])), (1, t["mtime"]))
        if fallback:
            w.server.commands_mapping.pop("mlsd")
            w.server.commands_mapping.pop("mlst")
        aioftp.server.time = TimeProxy(now)
        aioftp.client.datetime = datetime_proxy(now)
        # is the clock of both sides really under our control?  (if the modules reach the time another way, the
        # ls-format time comparison is skipped rather than judged against the wrong "now")
        probe = now - 86400 * 200
        try:
            ctl = (aioftp.Server.build_list_mtime(probe) == aioftp.Server.build_list_mtime(probe, now)
                   and aioftp.Server.build_list_mtime(now - 60) == aioftp.Server.build_list_mtime(now - 60, now)
                   and aioftp.Client.parse_ls_date("Jan 01 00:00") == aioftp.Client.parse_ls_date("Jan 01 00:00", now=datetime.datetime.fromtimestamp(now)))
        except Exception:
            ctl = False
        res["timectl"] = ctl
        cl = factory()
        await cl.connect("127.0.0.1", W.CTL_PORT)
        await cl.login("u1", "x")
        got = []
        for p, info in await cl.list("dir"):
            got.append({"name": p.name, "type": info["type"], "size": str(info.get("size", "0")), "modify": info["modify"]})
        res["list"] = got
        st = []
        for t in truth:
            info = await cl.stat("dir/" + t["name"])
            st.append({"name": t["name"], "type": info["type"], "size": str(info.get("size", "0")), "modify": info["modify"]})
        res["stat"] = st
        # the same directory listed again by the same server process after time has passed (a day; more than half a year):
        # the date form is chosen for the moment of *this* listing
        later = now + rng.choice([86400, 200 * 86400, 400 * 86400])
        res["later"] = later
        aioftp.server.time = TimeProxy(later)
        aioftp.client.datetime = datetime_proxy(later)
        got2 = []
        for p, info in await cl.list("dir"):
            got2.append({"name": p.name, "type": info["type"], "size": str(info.get("size", "0")), "modify": info["modify"]})
        res["list2"] = got2
        await cl.quit()

    try:
        out = clientdrv.run_clients(cfg, tree, {1: sc})
    finally:
        aioftp.server.time, aioftp.client.datetime = saved
    if out["crash"]:
        return {"crash": out["crash"]}
    err = out["hang"] or {k: repr(v) for k, v in out["exc"].items()}

    def conv(g):
        m = g["modify"]
        return {"name": g["name"], "type": g["type"], "size": g["size"] if g["type"] == "file" else "0",
                "modify": [int(m[0:4]), int(m[4:6]), int(m[6:8]), int(m[8:10]), int(m[10:12]), int(m[12:14])]}
    cases = []
    for what in ("list", "stat", "list2"):
        cases.append({"kind": "listing", "format": "ls" if fallback else "mlsx", "now": now if what != "list2" else res.get("later", now), "off": off, "truth": truth,
                      "timectl": bool(res.get("timectl", False)),
                      "got": [conv(g) for g in res.get(what, [])], "what": what, "error": err or None, "zone": zone})
    return {"crash": None, "cases": cases}


def run(tier, seed):
    chk = report.Check("C07", tier, seed)
    rng = random.Random(seed)
    P = corecheck.pool()
    fn = P.map(fn_cases, [(z, off, tier, seed + k) for k, (z, off) in enumerate(ZONES)])
    cases = [c for part in fn for c in part]
    nl = 120 if tier == "quick" else 1500
    jobs = [(ZONES[k % 3][0], ZONES[k % 3][1], seed * 1000 + k, k % 2 == 1) for k in range(nl)]
    # the same with the backend's own time stamps instead of spoofed stat results (creation time differs from modification time)
    jobs += [(ZONES[k % 3][0], ZONES[k % 3][1], seed * 1000 + 500000 + k, k % 2 == 1, "memory" if k % 4 < 2 else "path") for k in range(nl // 2)]
    for r in P.map(listing_case, jobs, chunksize=4):
        if r["crash"]:
            raise RuntimeError("harness failure: " + r["crash"])
        cases += r["cases"]
    # wire level: the listing sent is that of the directory the command named when it was given, whatever happens
    # (CWD, MKD, re-USER ...) between the 150 and the arrival of the data connection - validated against FtpCore
    mc.into(chk, mc.run_config("MC_Seq_q", "MC_Seq", must_cover=("ReplyEv", "WorkerStep")))
    login = [["connect", 1], ["send", 1, "USER u1"], ["send", 1, "PASS pw1"]]
    scheds = []
    for verb in ("LIST", "MLSD"):
        for arg in ("", "d", ".", "d/e/..", "/d"):
            for pre in ([], [["send", 1, "CWD d"]]):
                for mid in ([], [["send", 1, "CWD d"]], [["send", 1, "CWD /"]], [["send", 1, "CDUP"]], [["send", 1, "MKD d/zz"]],
                            [["send", 1, "DELE d/g"]], [["send", 1, "USER u2"]], [["send", 1, "RNFR d"], ["send", 1, "RNTO dd"]]):
                    scheds.append(login + pre + [["send", 1, "EPSV"], ["send", 1, (verb + " " + arg).strip()]] + mid
                                  + [["dconnect", 1], ["deof", 1], ["send", 1, "PWD"], ["send", 1, "QUIT"]])
    corecheck.validate(chk, gen.std_cfg(ns=1), gen.STD_TREE, scheds, label="listing-wire")
    # ... and the same over a tree with empty files (size 0 is a size) on all backends
    tree0 = {"d": gen.STD_TREE["d"], "f": gen.STD_TREE["f"] + [{"p": ["A", "z0"], "c": []}, {"p": ["A", "d", "z1"], "c": []}]}
    zero = scheds[::3] + [login + [["send", 1, "MLST " + a]] for a in ("z0", "d/z1", "/z0", "f", "d")]
    for b in ("memory", "path", "async"):
        corecheck.validate(chk, gen.std_cfg(ns=1, backend=b), tree0, zero, label="listing-wire:empty-files:" + b)
    # a backend that fails on the n-th stat / is_file / is_dir / exists / list step of a listing or a stat: the answer is the failure
    # (451) or the whole truth - never a success reply over a listing with an entry missing or its facts incomplete
    faulty = []
    for verb, arg in (("LIST", ""), ("MLSD", ""), ("LIST", "d"), ("MLSD", "d"), ("MLST", "f"), ("MLST", "d")):
        for op in ("stat", "is_file", "is_dir", "exists", "list"):
            for nth in (1, 2, 3, 4):
                st = login + [["fault", 1, op, nth]]
                st += ([["send", 1, "MLST " + arg]] if verb == "MLST" else [["send", 1, "EPSV"], ["dconnect", 1], ["send", 1, (verb + " " + arg).strip()], ["deof", 1]])
                faulty.append(st + [["send", 1, "PWD"], ["send", 1, "QUIT"]])
    for b in ("memory", "path"):
        corecheck.validate(chk, gen.std_cfg(ns=1, backend=b), gen.STD_TREE, faulty if tier != "quick" else faulty[::2], label="listing-faults:" + b)
    # what a listing or a stat says is the truth about its own entries also when another session lists or stats something else
    # (another file of another size) while one of this listing's backend calls is in flight
    from checks import c17
    lk = c17.lookers()
    for b in ("memory", "async"):
        corecheck.validate(chk, gen.std_cfg(ns=3, backend=b), gen.STD_TREE, lk if tier != "quick" else lk[::2], label="listing-concurrent:" + b)
    chk.cov["evaluations"] += len(cases)
    strip = lambda c: {k: v for k, v in c.items() if k not in ("text", "zone", "what", "error")}
    bad = judge.judge("LsTime", [strip(c) for c in cases], chk, chunk=20000)
    for i in sorted(bad):
        c = cases[i]
        if c["kind"] == "listing":
            lead = any(t["name"] != t["name"].lstrip() for t in c["truth"])
            sig = {"at": "listing", "format": c["format"], "what": c["what"], "leading_blank_name": lead}
        else:
            sig = {"at": c["kind"]}
        chk.violation(sig, {"case": c}, {"case": c})
    chk.cov["traces_validated_against_impl"] = len([c for c in cases if c["kind"] == "listing"])
    chk.cov["rule"] = ("function level: (mtime, now) pairs - 'now' at year ends, Feb 28/29, Mar 1, mid-year in leap and non-leap years "
                       "1991-2036 at 00:00:00 / 12:00:00 / 23:59:59; mtime = now - d for d from 0 s to 10 years, minute-stepped sweeps "
                       "two days either side of the half-year switch, and future times; parse instant = now + 0/1/61 s; zones UTC, "
                       "UTC+5, UTC-8 - through the real Server.build_list_mtime -> Client.parse_ls_date and _format_mlsx_time; end to "
                       "end: directories of 0..7 entries with spoofed sizes (up to 2^40) and times, hostile names, listed and stat'ed "
                       "by the real client over MLSD/MLST and over the LIST fallback with controlled 'current time'; LsTime.tla in "
                       "TLC computes calendar fields and the precision rule and compares; distinct = records")
    chk.cov["distinct_nontrivial"] = len({json.dumps(strip(c), sort_keys=True) for c in cases})
    chk.sample({k: v for k, v in cases[7].items()})
    chk.sample(cases[-1])
    return chk.finish()
