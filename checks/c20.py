"""C20 - passwords never reach the logs."""
import asyncio
import itertools
import json
import logging
import random
import re

import aioftp

from harness import clientdrv, corecheck, gen, judge, report, simnet, tlc
from harness import world as W

PASSWORDS = {
    "plain": ("s3cretXq", "t4cretXq"),
    "inner-spaces": ("my pass Xq rd", "ny pass Xq rd"),
    "leading-blank": (" leadXqpw", " meadXqpw"),
    "non-ascii": ("пaрольЖ", "пaрольЩ"),
    "one-char": ("Ω", "Ψ"),
    "format-directives": ("p%sw%d{}Xq", "q%sw%d{}Xq"),
    "percent": ("100%Xq%%", "200%Xq%%"),
    "braces": ("{0}{pw}Xq", "{1}{pw}Xq"),
    "long": ("Xq" * 40, "Xr" * 40),
    "stars": ("**Xq**", "**Xr**"),
    "looks-like-command": ("PASS Xq USER", "PASS Xr USER"),
}
SPELLINGS = ["PASS", "pass", "PaSs", "pAsS"]
OUTCOMES = ["accepted", "rejected", "out-of-sequence", "after-login", "over-limit", "abandoned", "unsendable"]
# "unsendable": the client cannot deliver the PASS line - its encoding cannot express the password, or the connection is reset
# between the 331 and the write
# "abandoned": the account check itself takes time (a user manager that awaits, as one backed by a database would) and the
# connection ends - QUIT pipelined behind PASS, reset, server shutdown, idle timeout - while the password is being checked
# what happens right after the PASS exchange: nothing special, or an error path of the dispatcher
# (idle timeout, undecodable line, peer reset, server shutdown) while PASS is the last command seen
AFTER = ["pwd-quit", "idle-timeout", "garbage", "reset", "server-close"]


class Cap(logging.Handler):
    def __init__(self):
        super().__init__(logging.DEBUG)
        self.records = []

    def emit(self, record):
        try:
            msg = record.getMessage()
        except Exception as e:  # a formatting error would print the raw msg and args
            msg = "%r %% %r" % (record.msg, record.args)
        if record.exc_info:
            msg += "\n" + logging.Formatter().formatException(record.exc_info)
        self.records.append((record.name, msg))


def one_run(args):
    pw, spelling, outcome, via_client, after = args
    cap = Cap()
    root = logging.getLogger()
    olds = (root.level, logging.getLogger("aioftp.client").level, logging.getLogger("aioftp.server").level)
    root.addHandler(cap)
    root.setLevel(logging.DEBUG)
    for n in ("aioftp.client", "aioftp.server", "asyncio"):
        logging.getLogger(n).setLevel(logging.DEBUG)
    users = [{"id": "u1", "login": "u1", "pw": pw if outcome != "rejected" else pw + "-not", "max": 1 if outcome == "over-limit" else 0,
              "perms": [], "home": [], "base": ["A"]}]
    cfg = gen.std_cfg(ns=2, users=users, idle=1000 if after == "idle-timeout" else 0)
    observed = {}
    sent = {}

    async def sc(factory, w):
        if outcome == "over-limit":
            # another session of the same account already holds its only slot
            c0 = factory()
            simnet.CUR_SESSION.set(2)
            await c0.connect("127.0.0.1", W.CTL_PORT)
            await c0.login("u1", pw)
            simnet.CUR_SESSION.set(1)
        c = factory(encoding="ascii") if outcome == "unsendable" and after != "reset" else factory()
        await c.connect("127.0.0.1", W.CTL_PORT)
        if outcome == "abandoned":
            gate = asyncio.Event()
            orig = w.server.user_manager.authenticate

            async def slow(user, password):
                await gate.wait()
                return await orig(user, password)
            w.server.user_manager.authenticate = slow
            await c.stream.write(b"USER u1\r\n")
            await c.command(None, ("2xx", "3xx", "5xx"))
            await c.stream.write((spelling + " " + pw + "\r\n").encode("utf-8"))
            for _ in range(5):
                await asyncio.sleep(0)
            try:
                if after == "pwd-quit":
                    await c.stream.write(b"QUIT\r\n")
                    await asyncio.sleep(0.1)
                    c.close()
                elif after == "idle-timeout":
                    await asyncio.sleep(3)
                elif after == "garbage":
                    await c.stream.write(b"\xff\xfe\xfd\r\n")
                    await asyncio.sleep(1)
                elif after == "reset":
                    c.stream.writer.transport.abort()
                    await asyncio.sleep(1)
                elif after == "server-close":
                    await w.server.close()
            except Exception:
                pass
            gate.set()
            await asyncio.sleep(1)
            observed["o"] = "abandoned"
            sent["n"] = len(pw.rstrip())
            return True
        if outcome == "unsendable":
            eff = pw if after == "reset" else pw + "\u00e9\u4e2d"
            c2 = c
            code, _ = await c2.command("USER u1", ("2xx", "3xx", "5xx"))
            if after == "reset":
                w.net.conns[-1].srv.abort()
                for _ in range(5):
                    await asyncio.sleep(0)
            try:
                await c2.command("PASS " + eff, ("2xx", "5xx"), censor_after=5)
                observed["o"] = "sent"
            except (OSError, UnicodeError):
                observed["o"] = "unsendable"
            sent["n"] = len(eff)
            return True
        if via_client:
            try:
                await c.login("u1", pw)
                observed["o"] = "accepted"
            except aioftp.StatusCodeError as e:
                observed["o"] = "rejected" if outcome != "over-limit" else "over-limit"
            if outcome == "after-login":
                code, info = await c.command("PASS " + pw, ("2xx", "5xx"), censor_after=5)
                observed["o"] = "after-login" if code == "503" else "?" + code
            sent["n"] = len(pw)
        else:
            async def raw(line, expect=("2xx", "3xx", "5xx")):
                # what a foreign client would put on the wire (no client-side logging involved)
                await c.stream.write((line + "\r\n").encode("utf-8"))
                return await c.command(None, expect)
            if outcome != "out-of-sequence":
                ucode, _ = await raw("USER u1")
            code, info = await raw(spelling + " " + pw)
            if outcome == "after-login":
                code, info = await raw(spelling + " " + pw)
            observed["o"] = {"230": "accepted", "530": "rejected", "503": "out-of-sequence" if outcome == "out-of-sequence" else "after-login"}.get(str(code), "?" + str(code))
            if outcome == "over-limit":
                observed["o"] = "over-limit" if str(ucode) == "530" else "?" + str(ucode)
            sent["n"] = len(pw.rstrip())
        try:
            if after == "pwd-quit":
                await c.command("PWD", ("2xx", "5xx"))
                await c.quit()
            elif after == "idle-timeout":
                await asyncio.sleep(3)
            elif after == "garbage":
                await c.stream.write(b"\xff\xfe\xfd\r\n")
                await asyncio.sleep(1)
            elif after == "reset":
                c.stream.writer.transport.abort()
                await asyncio.sleep(1)
            elif after == "server-close":
                await w.server.close()
        except Exception:
            pass
        return True

    try:
        out = clientdrv.run_clients(cfg, {"d": [["A"]], "f": []}, {1: sc})
    finally:
        root.removeHandler(cap)
        root.setLevel(olds[0])
        logging.getLogger("aioftp.client").setLevel(olds[1])
        logging.getLogger("aioftp.server").setLevel(olds[2])
    if out["crash"] or out["hang"]:
        return {"crash": out["crash"] or out["hang"]}
    if out["exc"]:
        return {"crash": repr(out["exc"])}
    return dict(tokenise(cap, pw), observed=observed.get("o", "none"), sentlen=sent.get("n", 0))


def tokenise(cap, pw):
    recs = []
    grams = {pw[i:i + 16] for i in range(len(pw) - 15)} if len(pw) >= 64 else set()
    for name, msg in cap.records:
        if grams and pw not in msg and any(msg[i:i + 16] in grams for i in range(max(0, len(msg) - 15))):
            recs.append({"logger": name, "toks": ["<PW>"], "stars": []})   # a piece of a long password is the password
            continue
        toks, stars = [], []
        for part in re.split("(" + re.escape(pw) + ")", msg):
            if part == pw:
                toks.append("<PW>")
            elif part:
                toks.append(part)
        # a right-stripped or otherwise truncated copy is a leak as well (for passwords long enough to be recognisable)
        core = pw.strip()
        if len(core) >= 4 and "<PW>" not in toks and core in msg:
            toks.append("<PW>")
        for m in re.finditer(r"\*{2,}|(?<=[A-Za-z] )\*(?!\S)", msg.replace(pw, "")):
            stars.append(len(m.group(0)))
        recs.append({"logger": name, "toks": toks, "stars": stars})
    # (peer port numbers carry nothing; with two connections in a run the order in which they are torn down at the end is not fixed)
    norm = lambda m: re.sub(r"(127\.0\.0\.1|::1)[: ]\d{4,5}", r"\1:<port>", m)
    return {"crash": None, "records": recs, "msgs": [[n, norm(m)] for n, m in cap.records]}


def overlong_run(args):
    """A PASS line longer than the server's line limit, arriving in pieces a few loop iterations apart (raw wire): whatever the
    server makes of the pieces, none of them is logged."""
    pw, cuts, gap = args
    cap = Cap()
    root = logging.getLogger()
    olds = (root.level, logging.getLogger("aioftp.server").level)
    root.addHandler(cap)
    root.setLevel(logging.DEBUG)
    logging.getLogger("aioftp.server").setLevel(logging.DEBUG)
    users = [{"id": "u1", "login": "u1", "pw": pw, "max": 0, "perms": [], "home": [], "base": ["A"]}]
    cfg = gen.std_cfg(ns=1, users=users)

    async def sc(factory, w):
        c = factory()
        await c.connect("127.0.0.1", W.CTL_PORT)
        await c.stream.write(b"USER u1\r\n")
        await c.command(None, ("2xx", "3xx", "5xx"))
        line = ("PASS " + pw + "\r\n").encode("utf-8")
        pos = 0
        try:
            for k in list(cuts) + [len(line)]:
                await c.stream.write(line[pos:k])
                pos = k
                for _ in range(gap):
                    await asyncio.sleep(0)
            await asyncio.sleep(1)
            await c.stream.write(b"PWD\r\n")
            await asyncio.sleep(1)
        except OSError:
            pass
        return True

    try:
        out = clientdrv.run_clients(cfg, {"d": [["A"]], "f": []}, {1: sc})
    finally:
        root.removeHandler(cap)
        root.setLevel(olds[0])
        logging.getLogger("aioftp.server").setLevel(olds[1])
    if out["crash"]:
        return {"crash": out["crash"]}
    t = tokenise(cap, pw)
    # (what the records say apart from the password: the lengths of the pieces are the same for the twin)
    return dict(t, observed="overlong", sentlen=len(pw))


def cut_run(args):
    """The PASS line is cut short: no line terminator (or only the CR) and then the stream ends - closed, reset, or the server shuts
    down.  The server reads a partial line at end of stream; whatever it makes of it, the password is not logged."""
    pw, tail, how = args
    cap = Cap()
    root = logging.getLogger()
    olds = (root.level, logging.getLogger("aioftp.server").level)
    root.addHandler(cap)
    root.setLevel(logging.DEBUG)
    logging.getLogger("aioftp.server").setLevel(logging.DEBUG)
    users = [{"id": "u1", "login": "u1", "pw": pw, "max": 0, "perms": [], "home": [], "base": ["A"]}]
    cfg = gen.std_cfg(ns=1, users=users)

    async def sc(factory, w):
        c = factory()
        await c.connect("127.0.0.1", W.CTL_PORT)
        await c.stream.write(b"USER u1\r\n")
        await c.command(None, ("2xx", "3xx", "5xx"))
        try:
            await c.stream.write(("PASS " + pw + tail).encode("utf-8"))
            for _ in range(4):
                await asyncio.sleep(0)
            if how == "close":
                c.stream.writer.close()
            elif how == "reset":
                c.stream.writer.transport.abort()
            else:
                await w.server.close()
            await asyncio.sleep(1)
        except OSError:
            pass
        return True

    try:
        out = clientdrv.run_clients(cfg, {"d": [["A"]], "f": []}, {1: sc})
    finally:
        root.removeHandler(cap)
        root.setLevel(olds[0])
        logging.getLogger("aioftp.server").setLevel(olds[1])
    if out["crash"]:
        return {"crash": out["crash"]}
    return dict(tokenise(cap, pw), observed="cut", sentlen=len(pw))


def scripted_run(args):
    """Client.login against a server that is not aioftp: it asks for password and account in any order, any number of times
    (331 / 332 in every sequence of up to three), then accepts, refuses, asks for something unknown or hangs up."""
    pw, seq, final = args
    from harness import clientproto as cp
    cap = Cap()
    root = logging.getLogger()
    olds = (root.level, logging.getLogger("aioftp.client").level)
    root.addHandler(cap)
    root.setLevel(logging.DEBUG)
    logging.getLogger("aioftp.client").setLevel(logging.DEBUG)
    plan = [[["r", 220, "plain"]]] + [[["r", c, "plain"]] for c in seq] + [[["eof"]] if final == "eof" else [["r", final, "plain"]]]
    cp.LOGIN[:] = ["u1", pw, "acc-7"]
    try:
        out = cp.run_scenario({"plan": plan, "calls": [["connect", cp.arg()], ["login", cp.arg()]]})
    finally:
        cp.LOGIN[:] = ["u", "p", "a"]
        root.removeHandler(cap)
        root.setLevel(olds[0])
        logging.getLogger("aioftp.client").setLevel(olds[1])
    if out["crash"]:
        return {"crash": out["crash"]}
    sent = [e["v"] for e in out["trace"] if e["ev"] == "Send"]
    want = ["USER"] + ["PASS" if c == 331 else "ACCT" for c in seq]
    return dict(tokenise(cap, pw), observed="scripted" if sent == want else "?" + " ".join(sent), sentlen=len(pw), trace=out["trace"])


def run(tier, seed):
    chk = report.Check("C20", tier, seed)
    rng = random.Random(seed)
    plan = []
    for cls, (pw, twin) in PASSWORDS.items():
        for outcome in OUTCOMES:
            # through the real client (spelling is the client's own) and on the raw wire with every spelling
            for after in AFTER:
                if after != "pwd-quit" and tier == "quick" and rng.random() < 0.5:
                    continue
                if outcome == "unsendable":
                    if after in ("reset", "pwd-quit"):
                        plan.append((cls, pw, twin, "PASS", outcome, True, after))
                    continue
                if outcome not in ("out-of-sequence", "abandoned"):
                    plan.append((cls, pw, twin, "PASS", outcome, True, after))
                for sp in (SPELLINGS if tier != "quick" and after == "pwd-quit" else SPELLINGS[:3] if after == "pwd-quit" else [rng.choice(SPELLINGS)]):
                    plan.append((cls, pw, twin, sp, outcome, False, after))
    jobs = []
    for cls, pw, twin, sp, outcome, via, after in plan:
        jobs.append((pw, sp, outcome, via, after))
        jobs.append((twin, sp, outcome, via, after))
    results = corecheck.pool().map(one_run, jobs, chunksize=4)
    cases = []
    for k, (cls, pw, twin, sp, outcome, via, after) in enumerate(plan):
        a, b = results[2 * k], results[2 * k + 1]
        if a["crash"] or b["crash"]:
            raise RuntimeError("harness failure: %s" % (a["crash"] or b["crash"]))
        # stars in twin logs have the same lengths; messages must be identical apart from nothing at all
        cases.append({"records": a["records"], "pwlen": len(pw), "sentlen": a["sentlen"], "msgs": a["msgs"], "twin_msgs": b["msgs"],
                      "outcome": outcome if not (via and outcome == "out-of-sequence") else outcome, "observed": a["observed"]})
    chk.cov["evaluations"] += len(jobs)
    # the client alone, against scripted servers: every order of password and account requests
    splan = []
    for cls, (pw, twin) in PASSWORDS.items():
        for n in (1, 2, 3):
            for seq in itertools.product((331, 332), repeat=n):
                if 331 not in seq:
                    continue
                for final in ((230, 530, 333, "eof") if tier != "quick" or n < 3 else (rng.choice((230, 530, 333, "eof")),)):
                    splan.append((cls, pw, twin, seq, final))
    sres = corecheck.pool().map(scripted_run, [(x, seq, final) for cls, pw, twin, seq, final in splan for x in (pw, twin)], chunksize=8)
    straces = []
    for k, (cls, pw, twin, seq, final) in enumerate(splan):
        a, b = sres[2 * k], sres[2 * k + 1]
        if a["crash"] or b["crash"]:
            raise RuntimeError("harness failure: %s" % (a["crash"] or b["crash"]))
        plan.append((cls, pw, twin, "PASS", "scripted", True, "%s-%s" % ("-".join(map(str, seq)), final)))
        cases.append({"records": a["records"], "pwlen": len(pw), "sentlen": a["sentlen"], "msgs": a["msgs"], "twin_msgs": b["msgs"],
                      "outcome": "scripted", "observed": a["observed"]})
        straces.append([{k2: v for k2, v in e.items() if k2 != "exc"} for e in a["trace"]])
    chk.cov["evaluations"] += 2 * len(splan)
    # PASS lines that end with the stream instead of a line terminator
    cplan = [(cls, pw, twin, tail, how) for cls, (pw, twin) in PASSWORDS.items() for tail in ("", "\r") for how in ("close", "reset", "server-close")]
    if tier == "quick":
        cplan = cplan[::2]
    cres = corecheck.pool().map(cut_run, [(x, tail, how) for cls, pw, twin, tail, how in cplan for x in (pw, twin)], chunksize=4)
    for k, (cls, pw, twin, tail, how) in enumerate(cplan):
        a, b = cres[2 * k], cres[2 * k + 1]
        if a["crash"] or b["crash"]:
            raise RuntimeError("harness failure: %s" % (a["crash"] or b["crash"]))
        plan.append((cls, pw, twin, "PASS", "cut", False, "tail=%r %s" % (tail, how)))
        cases.append({"records": a["records"], "pwlen": len(pw), "sentlen": a["sentlen"], "msgs": a["msgs"], "twin_msgs": b["msgs"],
                      "outcome": "cut", "observed": a["observed"]})
    chk.cov["evaluations"] += 2 * len(cplan)
    # PASS lines beyond the server's line limit, cut in pieces
    oplan = []
    for n in (66000, 70000, 140000):
        pw = "".join("k%05d" % i for i in range(n // 6))
        twin = "".join("j%05d" % i for i in range(n // 6))
        for cuts in ((30000,), (65530,), (65541,), (40000, 66000), (1, 65537, 65538)):
            for gap in (1, 4):
                oplan.append((pw, twin, cuts, gap))
    if tier == "quick":
        oplan = oplan[::3]
    ores = corecheck.pool().map(overlong_run, [(x, cuts, gap) for pw, twin, cuts, gap in oplan for x in (pw, twin)], chunksize=2)
    for k, (pw, twin, cuts, gap) in enumerate(oplan):
        a, b = ores[2 * k], ores[2 * k + 1]
        if a["crash"] or b["crash"]:
            raise RuntimeError("harness failure: %s" % (a["crash"] or b["crash"]))
        plan.append(("overlong", "<%d chars>" % len(pw), "", "PASS", "overlong", False, "cuts=%s gap=%d" % (list(cuts), gap)))
        cut = lambda ms: [[n, m if len(m) < 300 else m[:120] + "...<%d>" % len(m)] for n, m in ms]
        cases.append({"records": a["records"], "pwlen": len(pw), "sentlen": a["sentlen"], "msgs": cut(a["msgs"]), "twin_msgs": cut(b["msgs"]),
                      "outcome": "overlong", "observed": a["observed"]})
    chk.cov["evaluations"] += 2 * len(oplan)
    # ... each of these executions is a behaviour of the client protocol model as well
    vres, tot = tlc.validate_plain("TraceClientProto", straces, procs=14, chunk=250)
    chk.add_tlc(tot)
    for i in sorted(vres):
        m, n = vres[i]
        if m < n:
            chk.violation({"at": "client-protocol", "event": straces[i][m]["ev"] if m < len(straces[i]) else "end"},
                          {"matched": m, "length": n, "trace": straces[i][:30]}, {"scripted": list(splan[i][3:])})
    bad = judge.judge("LoginLog", cases, chk)
    for i in sorted(bad):
        cls, pw, twin, sp, outcome, via, after = plan[i]
        leak = [r for r in cases[i]["records"] if "<PW>" in r["toks"]]
        chk.violation({"at": "login-log", "class": cls, "leak": bool(leak)},
                      {"spelling": sp, "outcome": outcome, "via_client": via, "after": after, "observed": cases[i]["observed"], "leaking_records": leak[:3],
                       "msgs": cases[i]["msgs"][:40]}, {"password_class": cls, "spelling": sp, "outcome": outcome, "via_client": via, "after": after})
    chk.cov["traces_validated_against_impl"] = len(cases)
    chk.cov["rule"] = ("password classes (plain, inner spaces, leading blank, non-ASCII, one character, %%s/%%d/{} directives, percent "
                       "signs, braces, long, stars, command look-alike) x login outcomes (accepted, rejected, out of sequence, after login) x "
                       "the real Client.login and the raw wire with verb spellings PASS/pass/PaSs/pAsS, plus Client.login against scripted servers "
                       "that ask for password and account in every order (331/332 sequences of up to three, then 230/530/333/eof), those "
                       "executions also validated against ClientProto; all records of root, aioftp.client "
                       "and aioftp.server at DEBUG are tokenised and judged by LoginLog.tla in TLC (no record contains the password, star "
                       "runs have the password's length, a twin run with another password of equal length logs identical text); "
                       "distinct = (class, spelling, outcome, path) tuples")
    chk.cov["distinct_nontrivial"] = len(plan)
    chk.sample({"class": plan[0][0], "spelling": plan[0][3], "outcome": plan[0][4], "records": cases[0]["records"][:6]})
    return chk.finish()
