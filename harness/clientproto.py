"""The real aioftp.Client against a scripted ("puppet") server on simnet; traces for TraceClientProto.tla.

A scenario is {"calls": [[op, arg], ...], "plan": [[item, ...], ...]}: plan[0] is what the server does when the control
connection is accepted, plan[k] what it does at the instant it has read the k-th command line.  Items:
["r", code, pl] reply, ["eof"] close the control connection, ["d", kind] one listing line / data block on the newest data
connection, ["deof"] close that data connection, ["await"] wait until the client has closed it.  Beyond the plan the server
closes the control connection.  Every event is logged at the instant the acting side acts (client side through transport
observers), so causal order is trace order.
"""
import asyncio
import json
import random
import tempfile
import traceback

import aioftp
import aioftp.client

from . import simnet, vloop, watchdog

CTL = 21
NOARG = {"raw": "", "off": 0, "wait": True, "cmds": ["epsv", "pasv"], "depth": 0, "parents": True}


def arg(**kw):
    a = dict(NOARG)
    a.update(kw)
    return a


LINES = {
    "MLSD": {"ok": b"Type=file;Size=1; other\r\n", "hit": b"Type=file;Size=1; x\r\n", "dot": b"Type=cdir; .\r\n", "bad": b"Size=1; broken\r\n"},
    "LIST": {"ok": b"-rw-r--r-- 1 o g 1 Jan 01 12:30 other\r\n", "hit": b"-rw-r--r-- 1 o g 1 Jan 01 12:30 x\r\n",
             "dot": b"drwxr-xr-x 2 o g 0 Jan 01 12:30 .\r\n", "bad": b"this is no listing line\r\n"},
}


class Puppet:
    def __init__(self, net, plan, log):
        self.net = net
        self.plan = plan
        self.log = log
        self.ncmd = 0
        self.data = []  # [(reader, writer, state dict)]
        self.lsn = []
        self.verb = "MLSD"
        self.ctl_open = True
        self.realised = []

    def items(self, k, verb):
        if callable(self.plan):
            it = self.plan(k, verb)
        else:
            it = self.plan[k] if k < len(self.plan) else [["eof"]]
        self.realised.append(it)
        return it

    async def on_data(self, r, w):
        self.data.append((r, w))

    def reply_text(self, code, pl, verb):
        port = self.free_port if not pl.endswith("dead") else 1999  # nothing listens on 1999
        if pl.startswith("epsv"):
            return "%d ok (|||%d|)" % (code, port)
        if pl.startswith("pasv"):
            return "%d ok (127,0,0,1,%d,%d)" % (code, port >> 8, port & 255)
        if pl == "mlst":
            return "%d-start\r\n Type=file;Size=1; x\r\n%d end" % (code, code)
        if verb == "PWD":
            return '%d "/a b" is the directory' % code
        return "%d text" % code

    async def ensure_listener(self):
        srv = await self.net.start_server(self.on_data, "127.0.0.1", 0)
        self.lsn.append(srv)
        self.free_port = srv.port

    async def do(self, w, items, verb):
        for it in items:
            if not self.ctl_open and it[0] in ("r", "eof", "trunc"):
                continue
            if it[0] == "r":
                _, code, pl = it
                w.write((self.reply_text(code, pl, verb) + "\r\n").encode())
                self.log({"ev": "Reply", "code": code, "pl": pl})
            elif it[0] == "trunc":
                # the beginning of a multi-line reply and nothing more: not a reply (the specification sees only the end of file
                # that follows); the client must treat the end of the stream inside a reply like any other
                w.write(("%d-and then\r\n more\r\n" % it[1]).encode())
            elif it[0] == "eof":
                self.ctl_open = False
                self.log({"ev": "CtlEof"})
                w.close()
            elif it[0] == "d":
                if self.data and not self.data[-1][1].transport.is_closing():
                    k = it[1]
                    body = b"z" if self.verb in ("RETR", "STOR") else LINES[self.verb if self.verb in LINES else "MLSD"][k]
                    self.data[-1][1].write(body)
                    self.log({"ev": "DData", "id": len(self.data), "k": k})
            elif it[0] == "deof":
                if self.data and not self.data[-1][1].transport.is_closing():
                    self.log({"ev": "DEof", "id": len(self.data)})
                    self.data[-1][1].close()
            elif it[0] == "await":
                if self.data and not self.data[-1][1].transport.is_closing():
                    r = self.data[-1][0]
                    while await r.read(4096):
                        pass

    async def handle(self, r, w):
        await self.ensure_listener()
        await self.do(w, self.items(0, ""), "")
        while True:
            try:
                line = await r.readline()
            except Exception:
                break
            if not line:
                break
            self.ncmd += 1
            verb = line.decode("utf-8", "replace").split(" ")[0].strip().upper()
            if verb in ("MLSD", "LIST", "RETR", "STOR"):
                self.verb = verb
            if verb in ("EPSV", "PASV"):
                await self.ensure_listener()
            await self.do(w, self.items(self.ncmd, verb), verb)


LOGIN = ["u", "p", "a"]   # what the login call supplies (C20 puts its password classes here)


async def perform(client, op, a):
    if op == "connect":
        await client.connect("127.0.0.1", CTL)
        return 0
    if op == "login":
        await client.login(*LOGIN)
    elif op == "pwd":
        await client.get_current_directory()
    elif op == "cwd":
        await client.change_directory("d")
    elif op == "cdup":
        await client.change_directory()
    elif op == "rmd":
        await client.remove_directory("d")
    elif op == "dele":
        await client.remove_file("f")
    elif op == "rename":
        await client.rename("a", "b")
    elif op == "quit":
        await client.quit()
    elif op == "abort":
        await client.abort(wait=a["wait"])
    elif op == "list":
        return len(await client.list("d", raw_command=a["raw"] or None))
    elif op == "stat":
        await client.stat("d/x")
    elif op == "exists":
        return "true" if await client.exists("d/x") else "false"
    elif op == "mkd":
        await client.make_directory("/".join(["x"] * a["depth"]), parents=a["parents"])
    elif op == "download":
        n = 0
        async with client.download_stream("f", offset=a["off"]) as st:
            async for blk in st.iter_by_block(1):
                n += len(blk)
        return n
    elif op == "upload":
        async with client.upload_stream("f", offset=a["off"]) as st:
            await st.write(b"abc")
    else:
        raise AssertionError(op)
    return 0


def _run_scenario(sc, budget=200000):
    loop = vloop.new_loop()
    net = simnet.Net(loop)
    net.ctl_port = CTL
    saved = aioftp.client.open_connection
    aioftp.client.open_connection = net.open_connection
    trace = []
    out = {"trace": trace, "crash": None}
    ndata = [0]
    ids = {}
    try:
        frozen = []

        def log(e):
            if not frozen:   # (what happens when the harness tears the run down after End is no part of the execution)
                trace.append(e)

        def on_conn(c):
            if c.kind == "ctl":
                buf = bytearray()

                def on_write(data):
                    buf.extend(data)
                    while b"\n" in buf:
                        i = buf.index(b"\n")
                        line = bytes(buf[:i]).decode("utf-8", "replace").rstrip("\r")
                        del buf[:i + 1]
                        v, _, rest = line.partition(" ")
                        a = "I" if v == "TYPE" and rest == "I" else ("off" if v == "REST" and rest == "1" else ("" if v not in ("TYPE", "REST") else rest))
                        log({"ev": "Send", "v": v, "a": a})
                c.cli.on_write = on_write
            else:
                ndata[0] += 1
                ids[c.id] = ndata[0]
                log({"ev": "DOpen", "id": ndata[0]})

        def observer(rec):
            if rec["ev"] == "CliClose":
                if rec["kind"] == "ctl":
                    log({"ev": "CClose"})
                elif rec["conn"] in ids:
                    log({"ev": "DClose", "id": ids[rec["conn"]]})

        net.on_conn = on_conn
        net.observers.append(observer)
        pup = Puppet(net, sc["plan"], log)
        loop.run_task(net.start_server(pup.handle, "127.0.0.1", CTL))
        cmds = None
        for op, a in sc["calls"]:
            if a["cmds"] != NOARG["cmds"]:
                cmds = a["cmds"]
        client = aioftp.Client(**({"passive_commands": tuple(cmds)} if cmds else {}))
        blocked = False
        for op, a in sc["calls"]:
            a = dict(a)
            if cmds:
                a["cmds"] = cmds
            log({"ev": "Call", "op": op, "arg": a})
            res = {}

            async def one():
                try:
                    res["v"] = await perform(client, op, a)
                    res["kind"] = "ok"
                except aioftp.StatusCodeError as e:
                    res["kind"] = "SCE"
                    code = str(e.received_codes[-1])
                    res["code"] = int(code) if code.isdigit() else -1
                except ConnectionResetError:
                    res["kind"] = "CRE"
                except (asyncio.CancelledError, watchdog.HardHang):
                    raise
                except Exception as e:
                    res["kind"] = "other"
                    res["exc"] = type(e).__name__
                except BaseException as e:
                    res["kind"] = "fatal"
                    res["exc"] = type(e).__name__

            task = loop.spawn(one())
            try:
                loop.run_quiescent(budget=budget)
            except vloop.Budget:
                log({"ev": "Ret", "kind": "livelock", "code": 0, "n": 0})
                task.cancel()
                break
            if not task.done():
                blocked = True
                task.cancel()
                break
            kind = res.get("kind", "fatal")
            n = 0
            if kind == "ok" and res.get("v") == "false":
                kind = "false"
            elif kind == "ok" and isinstance(res.get("v"), int):
                n = res["v"]
            e = {"ev": "Ret", "kind": kind, "code": res.get("code", 0), "n": n}
            if "exc" in res:
                e["exc"] = res["exc"]
            log(e)
            if kind in ("CRE", "fatal") or op == "quit":
                break
        log({"ev": "End", "blocked": blocked})
        frozen.append(True)
        out["plan"] = pup.realised
        out["errors"] = [str(e.get("message")) + " " + repr(e.get("exception")) for e in loop.errors]
    except watchdog.HardHang:
        raise
    except BaseException as ex:
        out["crash"] = "".join(traceback.format_exception(type(ex), ex, ex.__traceback__))[-3000:]
    finally:
        aioftp.client.open_connection = saved
        try:
            loop.shutdown()
        except Exception:
            pass
    return out


def run_scenario(sc, budget=200000):
    """_run_scenario under the wall-clock guard; a client that blocks the thread itself ends as Ret kind 'hardhang'."""
    if watchdog.POISONED[0]:
        return {"trace": [{"ev": "End", "blocked": False}], "crash": None, "plan": [], "skipped": True}
    try:
        with watchdog.guard():
            return _run_scenario(sc, budget)
    except watchdog.HardHang:
        return {"trace": [{"ev": "Ret", "kind": "hardhang", "code": 0, "n": 0}], "crash": None, "plan": []}


SHAPES = ["plain", "epsv", "epsvdead", "pasv", "pasvdead", "mlst"]
CODES = [110, 120, 125, 150, 200, 202, 220, 221, 225, 226, 227, 229, 230, 234, 250, 257, 330, 331, 332, 333, 350, 421, 425, 426, 450, 451, 452, 500, 501, 502,
         503, 504, 509, 510, 530, 532, 540, 550, 551, 552, 553, 559, 560, 600, 999]
GOOD = {"USER": 331, "PASS": 230, "ACCT": 230, "PWD": 257, "CWD": 250, "CDUP": 250, "RMD": 250, "DELE": 250, "RNFR": 350, "RNTO": 250,
        "QUIT": 221, "TYPE": 200, "EPSV": 229, "PASV": 227, "REST": 350, "MLST": 250, "MKD": 257, "ABOR": 226}


def policy(seed, p, *, mlsd=True, mlst=True, epsv=True, exists=0.5):
    """A server that answers properly except that, with probability p per decision, it does something else."""
    rng = random.Random(seed)

    def final(code):
        if rng.random() < p:
            return rng.choice(CODES)
        return code

    def fn(k, verb):
        if k == 0:
            it = [["r", 120, "plain"]] if rng.random() < 0.2 else []
            return it + [["r", final(220), "plain"]]
        if rng.random() < p / 4:
            return [["eof"]] if rng.random() < 0.6 else [["trunc", rng.choice([150, 226, 250, 227])], ["eof"]]
        if verb in ("MLSD", "LIST", "RETR", "STOR"):
            if (verb == "MLSD" and not mlsd):
                return [["r", final(rng.choice([500, 502])), "plain"]]
            if rng.random() < p:
                return [["r", rng.choice(CODES), "plain"]] + ([["deof"]] if rng.random() < 0.5 else [])
            it = [["r", final(150), "plain"]]
            if rng.random() < p:
                it.append(["r", 125, "plain"])
            if verb == "STOR":
                it.append(["await"])
            else:
                for _ in range(rng.choice([0, 1, 2, 3])):
                    if verb == "RETR":
                        it.append(["d", "blk"])
                    else:
                        r = rng.random()
                        it.append(["d", "bad" if r < p / 2 else ("dot" if r < 0.2 else ("hit" if r < 0.2 + exists * 0.6 else "ok"))])
                it.append(["deof"])
            if rng.random() < p:
                it.append(["r", 150, "plain"])
            it.append(["r", final(226), "plain"])
            return it
        if verb in ("EPSV", "PASV"):
            if verb == "EPSV" and not epsv:
                return [["r", final(rng.choice([500, 502])), "plain"]]
            pl = verb.lower()
            if rng.random() < p:
                pl = rng.choice(SHAPES)
            return [["r", final(GOOD[verb]), pl]]
        if verb == "MLST":
            if not mlst:
                return [["r", final(rng.choice([500, 502])), "plain"]]
            if rng.random() > exists:
                return [["r", final(550), "plain"]]
            return [["r", final(250), rng.choice(SHAPES) if rng.random() < p else "mlst"]]
        if verb == "ABOR":
            return ([["r", 426, "plain"]] if rng.random() < 0.5 else []) + [["r", final(226), "plain"]]
        if verb == "USER":
            return [["r", final(rng.choice([230, 331, 332])), "plain"]]
        if verb == "PASS":
            return [["r", final(rng.choice([230, 230, 332])), "plain"]]
        return [["r", final(GOOD.get(verb, 502)), "plain"]]

    return fn


ALL_CALLS = [["login", arg()], ["pwd", arg()], ["cwd", arg()], ["cdup", arg()], ["rmd", arg()], ["dele", arg()], ["rename", arg()],
             ["abort", arg()], ["abort", arg(wait=False)], ["list", arg()], ["list", arg(raw="MLSD")], ["list", arg(raw="LIST")],
             ["stat", arg()], ["exists", arg()], ["mkd", arg(depth=1)], ["mkd", arg(depth=2)], ["mkd", arg(depth=2, parents=False)],
             ["mkd", arg(depth=3)], ["download", arg()], ["download", arg(off=1)], ["upload", arg()], ["upload", arg(off=1)]]
CMDS = [["epsv", "pasv"], ["pasv"], ["epsv"], ["pasv", "epsv"]]


def rand_scenario(seed):
    rng = random.Random(seed)
    n = rng.choice([1, 2, 3, 5, 8])
    calls = [["connect", arg()]] + [rng.choice(ALL_CALLS) for _ in range(n)]
    if rng.random() < 0.3:
        calls.append(["quit", arg()])
    cmds = rng.choice(CMDS)
    calls = [[op, dict(a, cmds=cmds)] for op, a in calls]
    return {"calls": calls, "seed": seed, "p": rng.choice([0.0, 0.05, 0.15, 0.4]), "mlsd": rng.random() < 0.6, "mlst": rng.random() < 0.6,
            "epsv": rng.random() < 0.6, "exists": rng.choice([0.0, 0.5, 1.0])}


def run_random(sc):
    s2 = dict(sc)
    s2["plan"] = policy(sc["seed"], sc["p"], mlsd=sc["mlsd"], mlst=sc["mlst"], epsv=sc["epsv"], exists=sc["exists"])
    return run_scenario(s2)


def guided(num, depth, seed):
    """Spec -> code: behaviours of MC_Client generated by TLC (-simulate) as scenarios with static plans."""
    import os
    import shutil
    from . import guide, tlc
    wd = tempfile.mkdtemp(prefix="verif-cguide-")
    try:
        with open(os.path.join(tlc.SPECS, "MC_Client_g.cfg")) as fh:
            cfg_text = fh.read()
        rc, out, wall = tlc.run("MC_Client", cfg_text, workdir=wd, workers=1, timeout=900,
                                extra=["-simulate", "num=%d" % num, "-depth", str(depth), "-continue", "-seed", str(seed)])
        scs, cur, steps = [], None, 0
        for line in out.split("\n"):
            if line.startswith("Error: Invariant GStop is violated"):
                if cur and cur["calls"]:
                    scs.append(cur)
                cur = {"calls": [], "plan": []}
            elif line.startswith("act = ") and cur is not None:
                a = guide.parse_value(line[6:])
                steps += 1
                if a[0] == "call":
                    cur["calls"].append([a[1], {"raw": a[2], "off": a[3], "wait": a[4], "cmds": a[5], "depth": a[6], "parents": a[7]}])
                elif a[0] in ("reply", "eof", "ddata", "deof"):
                    k = a[1]
                    while len(cur["plan"]) <= k:
                        cur["plan"].append([])
                    cur["plan"][k].append({"reply": lambda: ["r", a[2], a[3]], "eof": lambda: ["eof"], "ddata": lambda: ["d", a[2]],
                                           "deof": lambda: ["deof"]}[a[0]]())
        if cur and cur["calls"]:
            scs.append(cur)
        if not scs:
            raise tlc.TlcError("no behaviours generated:\n" + out[-2000:])
        for sc in scs:
            # beyond what the behaviour says the server stays silent (no implicit end of file)
            sc["plan"] = sc["plan"] + [[] for _ in range(60)]
        return scs, steps
    finally:
        shutil.rmtree(wd, ignore_errors=True)
