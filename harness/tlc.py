"""Running TLC: model checking of design configurations and batched trace validation."""

import concurrent.futures
import hashlib
import json
import os
import re
import shutil
import subprocess
import tempfile
import time

VERIF = os.path.dirname(os.path.dirname(os.path.abspath(__file__)))
SPECS = os.path.join(VERIF, "specs")
JAR = "/opt/veriftools/tla/tla2tools.jar:/opt/veriftools/tla/CommunityModules-deps.jar"


class TlcError(Exception):
    pass


def tla(v):
    """Python value -> TLA+ literal."""
    if isinstance(v, bool):
        return "TRUE" if v else "FALSE"
    if isinstance(v, int):
        return str(v)
    if isinstance(v, str):
        return '"' + v.replace("\\", "\\\\").replace('"', '\\"') + '"'
    if isinstance(v, (list, tuple)):
        return "<<" + ", ".join(tla(x) for x in v) + ">>"
    if isinstance(v, (set, frozenset)):
        return "{" + ", ".join(tla(x) for x in sorted(v, key=repr)) + "}"
    if isinstance(v, dict):
        return "[" + ", ".join("%s |-> %s" % (k, tla(x)) for k, x in v.items()) + "]"
    raise TypeError(v)


def tla_fun(d, var="u"):
    """dict -> [var \\in DOMAIN |-> CASE ...]"""
    keys = list(d)
    if not keys:
        return "<<>>"
    if len(keys) == 1:
        return "[%s \\in {%s} |-> %s]" % (var, tla(keys[0]), tla(d[keys[0]]))
    arms = " [] ".join("%s = %s -> %s" % (var, tla(k), tla(d[k])) for k in keys)
    return "[%s \\in %s |-> CASE %s]" % (var, tla(set(keys)), arms)


def run(module, cfg_text, *, workdir, env=None, workers=1, timeout=600, extra=(), extra_modules=None, depth_first=False):
    """Run TLC on specs/<module>.tla (copied to workdir with every other spec)."""
    for f in os.listdir(SPECS):
        if f.endswith(".tla"):
            shutil.copy(os.path.join(SPECS, f), workdir)
    for name, text in (extra_modules or {}).items():
        with open(os.path.join(workdir, name + ".tla"), "w") as fh:
            fh.write(text)
    with open(os.path.join(workdir, module + ".cfg"), "w") as fh:
        fh.write(cfg_text)
    meta = os.path.join(workdir, "meta")
    cmd = ["java", "-XX:+UseParallelGC", "-Xmx6g", "-Xss64m"]
    if depth_first:
        cmd.append("-Dtlc2.tool.queue.IStateQueue=StateDeque")
    cmd += ["-cp", JAR, "tlc2.TLC", "-workers", str(workers), "-metadir", meta, "-noGenerateSpecTE", "-config", module + ".cfg"]
    cmd += list(extra) + [module + ".tla"]
    e = dict(os.environ)
    e.update(env or {})
    t0 = time.time()
    try:
        p = subprocess.run(cmd, cwd=workdir, env=e, capture_output=True, text=True, timeout=timeout)
    except subprocess.TimeoutExpired as ex:
        raise TlcError("TLC timeout after %ss on %s" % (timeout, module)) from ex
    out = p.stdout + p.stderr
    return p.returncode, out, time.time() - t0


def stats(out):
    m = re.search(r"(\d+) states generated, (\d+) distinct states found", out)
    if not m:
        return None
    return {"generated": int(m.group(1)), "distinct": int(m.group(2))}


def check_ok(out):
    return "Model checking completed. No error has been found." in out


CORE_CONSTS = ["NS", "Users", "UCfg", "SrvMax", "Ports", "UsePool", "Idle", "WaitData", "SockT", "V6", "LateDrop", "KF"]


def core_constants_module(name, base, cfg):
    """MC module that EXTENDS `base` and defines FtpCore's constants literally from a world cfg."""
    users = {u["id"]: {"login": u["login"], "pw": u["pw"], "max": u["max"],
                       "perms": [{"p": list(p["p"]), "r": p["r"], "w": p["w"]} for p in u["perms"]],
                       "home": list(u["home"]), "base": list(u["base"])} for u in cfg["users"]}
    lines = ["---- MODULE %s ----" % name, "EXTENDS %s" % base]
    lines.append("c_NS == %d" % cfg["ns"])
    lines.append("c_Users == %s" % tla(set(users)))
    lines.append("c_UCfg == %s" % tla_fun(users))
    lines.append("c_SrvMax == %d" % cfg["srvmax"])
    lines.append("c_Ports == %s" % tla(set(cfg["ports"])))
    lines.append("c_UsePool == %s" % tla(bool(cfg["usepool"])))
    lines.append("c_Idle == %d" % cfg["idle"])
    lines.append("c_WaitData == %d" % cfg["wait"])
    lines.append("c_SockT == %d" % cfg["sock"])
    lines.append("c_V6 == %s" % tla(bool(cfg.get("v6"))))
    lines.append("c_LateDrop == %s" % tla(bool(cfg.get("slow_logout"))))
    lines.append("c_KF == %s" % tla(set(cfg.get("kf", []))))
    lines.append("====")
    cfgl = ["CONSTANTS"] + ["  %s <- c_%s" % (c, c) for c in CORE_CONSTS]
    return "\n".join(lines) + "\n", "\n".join(cfgl) + "\n"


def _validate_chunk(args):
    cfg, chunk, ids, timeout, keep = args
    wd = tempfile.mkdtemp(prefix="verif-tv-")
    try:
        mod, cfgtxt = core_constants_module("TV", "TraceFtpCore", cfg)
        cfgtxt += "SPECIFICATION TraceSpec\nCONSTRAINT Reached\nPOSTCONDITION Report\nCHECK_DEADLOCK FALSE\n"
        tf = os.path.join(wd, "traces.json")
        with open(tf, "w") as fh:
            json.dump(chunk, fh)
        rc, out, wall = run("TV", cfgtxt, workdir=wd, env={"TRACE_FILE": tf, "DIAG_K": "0"}, workers=1,
                            timeout=timeout, extra_modules={"TV": mod})
        res = {}
        for m in re.finditer(r'<<"RES", (\d+), (\d+), (\d+)>>', out):
            res[ids[int(m.group(1)) - 1]] = (int(m.group(2)), int(m.group(3)))
        if len(res) != len(chunk):
            raise TlcError("trace validation run failed (rc=%s):\n%s" % (rc, out[-3000:]))
        return res, stats(out), wall
    finally:
        if not keep:
            shutil.rmtree(wd, ignore_errors=True)


def validate_traces(cfg, traces, *, procs=8, chunk=250, timeout=900):
    """traces: list of event lists (first event = Init).  Returns ({index: (matched, length)}, totals)."""
    jobs = []
    for i in range(0, len(traces), chunk):
        ids = list(range(i, min(i + chunk, len(traces))))
        jobs.append((cfg, [traces[j] for j in ids], ids, timeout, False))
    results = {}
    tot = {"generated": 0, "distinct": 0, "wall": 0.0, "runs": 0}
    if not jobs:
        return results, tot
    with concurrent.futures.ThreadPoolExecutor(max_workers=procs) as ex:
        for res, st, wall in ex.map(_validate_chunk, jobs):
            results.update(res)
            if st:
                tot["generated"] += st["generated"]
                tot["distinct"] += st["distinct"]
            tot["wall"] += wall
            tot["runs"] += 1
    return results, tot


def _validate_plain_chunk(args):
    module, chunk, ids, timeout = args
    wd = tempfile.mkdtemp(prefix="verif-tv-")
    try:
        cfgtxt = "SPECIFICATION TraceSpec\nCONSTRAINT Reached\nPOSTCONDITION Report\nCHECK_DEADLOCK FALSE\n"
        tf = os.path.join(wd, "traces.json")
        with open(tf, "w") as fh:
            json.dump(chunk, fh)
        rc, out, wall = run(module, cfgtxt, workdir=wd, env={"TRACE_FILE": tf, "DIAG_K": "0"}, workers=1, timeout=timeout)
        res = {}
        for m in re.finditer(r'<<"RES", (\d+), (\d+), (\d+)>>', out):
            res[ids[int(m.group(1)) - 1]] = (int(m.group(2)), int(m.group(3)))
        if len(res) != len(chunk):
            raise TlcError("trace validation run failed (rc=%s):\n%s" % (rc, out[-3000:]))
        return res, stats(out), wall
    finally:
        shutil.rmtree(wd, ignore_errors=True)


def validate_plain(module, traces, *, procs=8, chunk=250, timeout=900):
    """Batch validation against a trace module without constants (e.g. TraceClientProto)."""
    jobs = []
    for i in range(0, len(traces), chunk):
        ids = list(range(i, min(i + chunk, len(traces))))
        jobs.append((module, [traces[j] for j in ids], ids, timeout))
    results = {}
    tot = {"generated": 0, "distinct": 0, "wall": 0.0, "runs": 0}
    if not jobs:
        return results, tot
    with concurrent.futures.ThreadPoolExecutor(max_workers=procs) as ex:
        for res, st, wall in ex.map(_validate_plain_chunk, jobs):
            results.update(res)
            if st:
                tot["generated"] += st["generated"]
                tot["distinct"] += st["distinct"]
            tot["wall"] += wall
            tot["runs"] += 1
    return results, tot


def diagnose_plain(module, trace, k, timeout=300):
    wd = tempfile.mkdtemp(prefix="verif-diag-")
    try:
        cfgtxt = "SPECIFICATION TraceSpec\nINVARIANT Diag\nCHECK_DEADLOCK FALSE\n"
        tf = os.path.join(wd, "traces.json")
        with open(tf, "w") as fh:
            json.dump([trace], fh)
        rc, out, wall = run(module, cfgtxt, workdir=wd, env={"TRACE_FILE": tf, "DIAG_K": str(k)}, workers=1, timeout=timeout)
        j = out.rfind("State ")
        return out[j:j + 4000] if j >= 0 else out[-3000:]
    finally:
        shutil.rmtree(wd, ignore_errors=True)


def diagnose(cfg, trace, k, timeout=300):
    """Re-run one rejected trace and return TLC's printout of the last matched state (prefix k)."""
    wd = tempfile.mkdtemp(prefix="verif-diag-")
    try:
        mod, cfgtxt = core_constants_module("TV", "TraceFtpCore", cfg)
        cfgtxt += "SPECIFICATION TraceSpec\nINVARIANT Diag\nCHECK_DEADLOCK FALSE\n"
        tf = os.path.join(wd, "traces.json")
        with open(tf, "w") as fh:
            json.dump([trace], fh)
        rc, out, wall = run("TV", cfgtxt, workdir=wd, env={"TRACE_FILE": tf, "DIAG_K": str(k)}, workers=1,
                            timeout=timeout, extra_modules={"TV": mod})
        i = out.rfind("State %d:" % (k + 0))
        j = out.rfind("State ")
        return out[j:j + 4000] if j >= 0 else out[-3000:]
    finally:
        shutil.rmtree(wd, ignore_errors=True)


def spec_hash(*names):
    h = hashlib.sha256()
    for n in names:
        with open(os.path.join(SPECS, n), "rb") as fh:
            h.update(fh.read())
    return h.hexdigest()[:16]
