"""A complete simulated world: virtual-time loop + simnet + spy backend + the real aioftp.Server."""

import contextlib
import io
import pathlib
import shutil
import sys
import tempfile

import aioftp
import aioftp.client
import aioftp.server
from aioftp import pathio

from . import simnet, spyfs, vloop

CTL_PORT = 2121

DEFAULT_CFG = {
    "ns": 2,
    "users": [
        {"id": "anon", "login": "", "pw": "", "max": 0, "perms": [], "home": [], "base": []},
    ],
    "srvmax": 0,
    "ports": [],
    "usepool": False,
    "idle": 0,
    "wait": 1000,
    "sock": 0,
    "block": 2,
    "backend": "memory",
    "port_plan": {},
    "server_kwargs": {},
}


def vstr(segs):
    return "/" + "/".join(segs)


class World:
    def __init__(self, cfg, tree=None):
        c = dict(DEFAULT_CFG)
        c.update(cfg)
        self.cfg = c
        self.init_tree = tree or {"d": [], "f": []}
        self.loop = None
        self.tmp = None

    # -- construction ------------------------------------------------------
    def start(self):
        c = self.cfg
        self.loop = vloop.new_loop()
        self.net = simnet.Net(self.loop)
        self.net.ctl_port = CTL_PORT
        if c.get("v6"):  # the server's sockets report the IPv6 family (PASV then has no address to give)
            import socket
            self.net.force_family = socket.AF_INET6
        for p, plan in c["port_plan"].items():
            self.net.port_plan[int(p)] = list(plan) if isinstance(plan, list) else plan
        self._saved = (aioftp.server.asyncio, aioftp.client.open_connection)
        aioftp.server.asyncio = simnet.AsyncioProxy(self.net)
        aioftp.client.open_connection = self.net.open_connection
        backend = c["backend"]
        if backend == "memory":
            root = pathlib.PurePosixPath("/")
            self.ctl = spyfs.SpyCtl(self.net, pathio.MemoryPathIO, bases=("/",))
        else:
            self.tmp = tempfile.mkdtemp(prefix="verif-fs-")
            root = pathlib.Path(self.tmp)
            if backend == "path":
                self.ctl = spyfs.SpyCtl(self.net, pathio.PathIO, bases=(self.tmp,))
            else:
                self.ctl = spyfs.SpyCtl(self.net, pathio.AsyncPathIO, bases=(self.tmp,),
                                        inner_kwargs={"executor": spyfs.InlineExecutor()})
        self.root = root
        self.users = {}
        ulist = []
        for u in c["users"]:
            perms = [aioftp.Permission(vstr(p["p"]), readable=p["r"], writable=p["w"]) for p in u["perms"]]
            base = root.joinpath(*u["base"]) if u["base"] else root
            obj = aioftp.User(u["login"] or None, u["pw"] or None, base_path=base, home_path=vstr(u["home"]),
                              permissions=perms or None, maximum_connections=u["max"] or None,
                              **u.get("kwargs", {}))
            self.users[u["id"]] = obj
            ulist.append(obj)
        self.user_ids = {id(o): k for k, o in self.users.items()}
        self.ctl.short_reads = int(c.get("short_reads", 0))
        self.ctl.close_returns = bool(c.get("close_returns"))
        kw = dict(
            block_size=c["block"],
            socket_timeout=(c["sock"] / 1000) if c["sock"] else None,
            idle_timeout=(c["idle"] / 1000) if c["idle"] else None,
            wait_future_timeout=(c["wait"] / 1000) if c["wait"] else None,
            path_io_factory=spyfs.make_factory(self.ctl),
            maximum_connections=c["srvmax"] or None,
            data_ports=list(c["ports"]) if c["usepool"] else None,
        )
        kw.update(c["server_kwargs"])
        self.server = aioftp.Server(ulist, **kw)
        if c.get("slow_auth"):   # a user manager whose password check takes a few loop iterations (as one backed by a database would)
            um = self.server.user_manager
            orig = um.authenticate
            n_it = int(c["slow_auth"])

            async def slow(user, password):
                import asyncio
                for _ in range(n_it):
                    await asyncio.sleep(0)
                return await orig(user, password)
            um.authenticate = slow
        if c.get("slow_user"):   # ... and one whose account lookup does: {"login": iterations, "*": default}
            um = self.server.user_manager
            orig_get = um.get_user
            delays = dict(c["slow_user"])

            async def slow_get(login):
                import asyncio
                for _ in range(int(delays.get(login, delays.get("*", 0)))):
                    await asyncio.sleep(0)
                return await orig_get(login)
            um.get_user = slow_get
        if c.get("slow_logout"):   # ... and one whose logout notification does
            um = self.server.user_manager
            orig_out = um.notify_logout
            n_out = int(c["slow_logout"])

            async def slow_out(user):
                import asyncio
                for _ in range(n_out):
                    await asyncio.sleep(0)
                return await orig_out(user)
            um.notify_logout = slow_out
        self.populate(self.init_tree)
        self.loop.run_task(self.server.start(self.net.host, CTL_PORT))
        return self

    def populate(self, tree):
        """tree: {"d": [segs...], "f": [{"p": segs, "c": [bytes]}]} relative to the backend root."""
        if self.cfg["backend"] == "memory":
            pio = self.server.path_io_factory(timeout=None, connection=None)
            inner = pio.inner

            async def fill():
                for d in sorted(tree["d"], key=len):
                    await inner.mkdir(pathlib.PurePosixPath(vstr(d)), parents=True, exist_ok=True)
                for f in tree["f"]:
                    p = pathlib.PurePosixPath(vstr(f["p"]))
                    await inner.mkdir(p.parent, parents=True, exist_ok=True)
                    fo = await inner._open(p, "wb")
                    fo.write(bytes(f["c"]))

            self.loop.run_task(fill())
        else:
            for d in tree["d"]:
                self.root.joinpath(*d).mkdir(parents=True, exist_ok=True)
            for f in tree["f"]:
                p = self.root.joinpath(*f["p"])
                p.parent.mkdir(parents=True, exist_ok=True)
                p.write_bytes(bytes(f["c"]))

    def snapshot(self):
        if self.cfg["backend"] == "memory":
            snap = spyfs.snapshot_memory(self.ctl.state, "/")
        else:
            for h in self.ctl.open_handles():  # buffered writes become visible (no semantic effect)
                try:
                    h.file.flush()
                except Exception:
                    pass
            snap = spyfs.snapshot_fs(self.root)
        d = sorted([list(k) for k, v in snap.items() if v[0] == "d"])
        f = sorted(({"p": list(k), "c": list(v[1])} for k, v in snap.items() if v[0] == "f"), key=lambda x: x["p"])
        return {"d": d, "f": f}

    # -- teardown ------------------------------------------------------------
    def stop(self):
        try:
            if self.loop is not None and not self.loop.is_closed():
                self.loop.shutdown()
        finally:
            aioftp.server.asyncio, aioftp.client.open_connection = self._saved
            if self.tmp:
                shutil.rmtree(self.tmp, ignore_errors=True)
                self.tmp = None

    def __enter__(self):
        return self.start()

    def __exit__(self, *a):
        self.stop()
