"""Recording / faulting / gating wrapper around aioftp's storage backends.

``make_factory(ctl)`` returns a ``path_io_factory`` for ``aioftp.Server``.
Every backend call is logged at the instant the wrapped backend executes it
(its linearisation point); a *gate* delays the completion of the call (what
an executor does), a *fault* makes the call fail with OSError instead of
executing (which aioftp's ``universal_exception`` turns into PathIOError).
"""

import asyncio
import io
import pathlib
import sys

import functools

from aioftp import errors, pathio
from aioftp.pathio import AbstractAsyncLister

from .simnet import CUR_SESSION


def universal_exception(coro):
    """aioftp's decorator, except that what the wrapped backend raised reaches the server as it is (wrapped once, by the backend,
    with the reason the backend recorded) - the spy must not be visible in the exception either."""

    @functools.wraps(coro)
    async def wrapper(*args, **kwargs):
        try:
            return await coro(*args, **kwargs)
        except (errors.PathIOError, asyncio.CancelledError, NotImplementedError, StopAsyncIteration):
            raise
        except Exception as exc:
            raise errors.PathIOError(reason=sys.exc_info()) from exc

    return wrapper


class InlineExecutor:
    """concurrent.futures-like executor that runs the job at submit time."""

    def submit(self, fn, *a, **kw):
        import concurrent.futures

        f = concurrent.futures.Future()
        try:
            f.set_result(fn(*a, **kw))
        except BaseException as e:  # noqa
            f.set_exception(e)
        return f

    def shutdown(self, *a, **kw):
        pass


class Handle:
    __slots__ = ("file", "path", "session", "mode", "state", "hid")

    def __init__(self, hid, file, path, session, mode):
        self.hid = hid
        self.file = file
        self.path = path
        self.session = session
        self.mode = mode
        self.state = "opening"  # opening | open | closed | dropped


class SpyCtl:
    def __init__(self, net, inner_cls=pathio.MemoryPathIO, bases=("/",), inner_kwargs=None):
        self.net = net
        self.inner_cls = inner_cls
        self.inner_kwargs = inner_kwargs or {}
        self.bases = [pathlib.PurePosixPath(b) for b in bases]
        self.calls = []  # every call record
        self.handles = []
        self.counts = {}
        self.total = 0
        self.fault_hook = None  # (s, op, vpath, k_total, k_op) -> Exception | None
        self.gate_hook = None  # (s, op, vpath, k_total) -> awaitable | None
        self.pregate_hook = None  # the same, asked before the call executes
        self.stat_hook = None  # (real_path, stats) -> stats
        self.state = None
        self.quiet_ops = ()
        self.executor_like = inner_cls is pathio.AsyncPathIO
        self.close_returns = False  # TRUE: close() returns a true value (a backend is free to)
        self.short_reads = 0  # > 0: read() hands out at most that many bytes a call (what a file-like object is free to do)

    def vpath(self, p):
        """Real path -> (base index, virtual segments) or (None, str) when outside every base."""
        pp = pathlib.PurePosixPath(str(p))
        best = None
        for i, b in enumerate(self.bases):
            try:
                rel = pp.relative_to(b)
            except ValueError:
                continue
            if best is None or len(b.parts) > len(self.bases[best[0]].parts):
                best = (i, rel)
        if best is None:
            return None, [str(pp)]
        return best[0], list(best[1].parts)

    def open_handles(self):
        return [h for h in self.handles if h.state in ("open", "opening")]


class SpyFS(pathio.AbstractPathIO):
    def __init__(self, timeout=None, connection=None, state=None, *, ctl):
        super().__init__(timeout=timeout, connection=connection)
        self.ctl = ctl
        self.inner = ctl.inner_cls(timeout=timeout, connection=connection, state=state, **ctl.inner_kwargs)
        if ctl.state is None:
            ctl.state = self.inner.state

    @property
    def state(self):
        return self.inner.state

    async def _call(self, op, path, fn, *args, info=None, **kw):
        ctl = self.ctl
        s = CUR_SESSION.get()
        ctl.total += 1
        kt = ctl.total
        ko = ctl.counts[(s, op)] = ctl.counts.get((s, op), 0) + 1
        base, segs = ctl.vpath(path) if path is not None else (0, [])
        rec = {"s": s, "op": op, "base": base, "path": segs, "k": kt}
        if base is None:
            rec["escape"] = True
        if info:
            rec.update(info)
        # a backend with latency *before* the effect (a remote store): the call is held before it executes; cancelled there, it
        # never happens
        pre = ctl.pregate_hook(s, op, segs, kt) if ctl.pregate_hook else None
        if pre is not None:
            await asyncio.shield(pre)
        fault = ctl.fault_hook(s, op, segs, kt, ko) if ctl.fault_hook else None
        if fault is not None:
            rec["res"] = "fault"
            ctl.calls.append(rec)
            ctl.net.log("Fs", **rec)
            raise fault
        try:
            res = await fn(*args, **kw)
        except StopAsyncIteration:
            rec["res"] = "end"
            ctl.calls.append(rec)
            ctl.net.log("Fs", **rec)
            raise
        except errors.PathIOError:
            rec["res"] = "err"
            ctl.calls.append(rec)
            ctl.net.log("Fs", **rec)
            raise
        except asyncio.CancelledError:
            # executor semantics: the job has run (our inline executor runs it at submit time) although the awaiting
            # task was cancelled before it could see the result
            if ctl.executor_like:
                rec["res"] = "ok"
                rec["cancelled"] = True
                ctl.calls.append(rec)
                ctl.net.log("Fs", **rec)
                if op == "open":
                    ctl.net.log("Fs", s=s, op="close", base=base, path=segs, k=0, res="dropped", h=0)
            raise
        rec["res"] = res if isinstance(res, bool) else "ok"
        rec["_value"] = res
        ctl.calls.append(rec)
        pub = {k: v for k, v in rec.items() if not k.startswith("_")}
        if op == "read":
            pub["data"] = list(res)
        if op == "list":
            _, vs = ctl.vpath(res)
            pub["item"] = vs
        ctl.net.log("Fs", **pub)
        gate = ctl.gate_hook(s, op, segs, kt) if ctl.gate_hook else None
        if gate is not None:
            try:
                await asyncio.shield(gate)
            except asyncio.CancelledError:
                raise
            except Exception:
                # the held call fails after all (e.g. the executor job raised): one more event for the same call
                late = {k: v for k, v in pub.items() if k not in ("data", "item")}
                late["res"] = "fault"
                late["late"] = True
                ctl.net.log("Fs", **late)
                raise
        return res

    @universal_exception
    async def exists(self, path):
        return await self._call("exists", path, self.inner.exists, path)

    @universal_exception
    async def is_dir(self, path):
        return await self._call("is_dir", path, self.inner.is_dir, path)

    @universal_exception
    async def is_file(self, path):
        return await self._call("is_file", path, self.inner.is_file, path)

    @universal_exception
    async def mkdir(self, path, *, parents=False, exist_ok=False):
        return await self._call(
            "mkdir", path, self.inner.mkdir, path, parents=parents, exist_ok=exist_ok, info={"parents": parents}
        )

    @universal_exception
    async def rmdir(self, path):
        return await self._call("rmdir", path, self.inner.rmdir, path)

    @universal_exception
    async def unlink(self, path):
        return await self._call("unlink", path, self.inner.unlink, path)

    def list(self, path):
        inner = self.inner.list(path)
        spy = self

        class Lister(AbstractAsyncLister):
            @universal_exception
            async def __anext__(self_):
                return await spy._call("list", path, inner.__anext__)

        return Lister(timeout=self.timeout)

    @universal_exception
    async def stat(self, path):
        res = await self._call("stat", path, self.inner.stat, path)
        if self.ctl.stat_hook is not None:
            res = self.ctl.stat_hook(path, res)
        return res

    @universal_exception
    async def _open(self, path, mode="rb", *args, **kwargs):
        ctl = self.ctl
        h = Handle(len(ctl.handles) + 1, None, path, CUR_SESSION.get(), mode)

        async def do():
            f = await self.inner._open(path, mode, *args, **kwargs)
            h.file = f
            ctl.handles.append(h)
            return f

        try:
            f = await self._call("open", path, do, info={"mode": mode, "h": h.hid})
        except BaseException:
            if h.file is not None:
                # the open happened but its result never reached the caller
                h.state = "dropped"
                b, segs = ctl.vpath(path)
                ctl.net.log("Fs", s=h.session, op="close", base=b, path=segs, k=0, res="dropped", h=h.hid)
                if not isinstance(h.file, io.BytesIO):
                    try:
                        h.file.close()
                    except Exception:
                        pass
            raise
        h.state = "open"
        return f

    def _handle(self, file):
        for h in reversed(self.ctl.handles):
            if h.file is file and h.state == "open":
                return h
        return None

    @universal_exception
    @pathio.defend_file_methods
    async def seek(self, file, offset, whence=io.SEEK_SET):
        h = self._handle(file)
        return await self._call(
            "seek", h.path if h else None, self.inner.seek, file, offset, whence, info={"off": offset, "h": h.hid if h else 0}
        )

    @universal_exception
    @pathio.defend_file_methods
    async def write(self, file, data):
        h = self._handle(file)
        return await self._call(
            "write", h.path if h else None, self.inner.write, file, data, info={"data": list(data), "h": h.hid if h else 0}
        )

    @universal_exception
    @pathio.defend_file_methods
    async def read(self, file, block_size):
        h = self._handle(file)
        return await self._call(
            "read", h.path if h else None, self.inner.read, file,
            min(block_size, self.ctl.short_reads) if self.ctl.short_reads and block_size > 0 else block_size,
            info={"n": block_size, "h": h.hid if h else 0}
        )

    @universal_exception
    @pathio.defend_file_methods
    async def close(self, file):
        h = self._handle(file)

        async def do():
            r = await self.inner.close(file)
            if h is not None:
                h.state = "closed"
            return True if self.ctl.close_returns else r     # (AbstractPathIO.close specifies no return value)

        try:
            return await self._call("close", h.path if h else None, do, info={"h": h.hid if h else 0})
        except BaseException:
            if h is not None and h.state == "open":
                h.state = "closefailed"  # a failing close gives the handle up all the same
            raise

    @universal_exception
    async def rename(self, source, destination):
        _, d = self.ctl.vpath(destination)
        db, _ = self.ctl.vpath(destination)
        info = {"to": d}
        if db is None:
            info["escape"] = True
        return await self._call("rename", source, self.inner.rename, source, destination, info=info)


def make_factory(ctl):
    def factory(timeout=None, connection=None, state=None):
        return SpyFS(timeout=timeout, connection=connection, state=state, ctl=ctl)

    return factory


# -- snapshots ---------------------------------------------------------------
def snapshot_memory(state, base="/"):
    """Canonical tree of a MemoryPathIO state below ``base``: {segs tuple: ('d',)|('f', bytes)}."""
    out = {}
    root = None
    base = pathlib.PurePosixPath(base)
    nodes = state
    node = None
    for part in base.parts:
        found = None
        if isinstance(nodes, list):
            for n in nodes:
                if n.name == part:
                    found = n
                    break
        if found is None:
            return out
        node = found
        nodes = node.content
    root = node

    def walk(n, prefix):
        if n.type == "dir":
            if prefix:
                out[prefix] = ("d",)
            for c in n.content:
                walk(c, prefix + (c.name,))
        else:
            out[prefix] = ("f", bytes(n.content.getbuffer()))

    if root is not None:
        walk(root, ())
    return out


def snapshot_fs(base):
    out = {}
    base = pathlib.Path(base)
    for p in sorted(base.rglob("*")):
        rel = tuple(p.relative_to(base).parts)
        if p.is_dir():
            out[rel] = ("d",)
        else:
            out[rel] = ("f", p.read_bytes())
    return out
