"""In-memory deterministic network for asyncio streams.

Every connection is a pair of ``End`` transports.  Bytes written on one end
are delivered to the protocol of the other end by a single chained pump per
direction (FIFO), in segments chosen by the driver.  Listeners are created by
a fake ``start_server`` with per-port fault plans and two cancellable yield
points (before / after bind), mirroring the awaits of CPython's
``loop.create_server``.  Everything ever created is kept in a ledger.
"""

import asyncio
import contextvars
import errno
import socket

CUR_SESSION = contextvars.ContextVar("verif_session", default=0)


class FakeSocket:
    def __init__(self, family, name):
        self.family = family
        self._name = name

    def getsockname(self):
        return self._name

    def getpeername(self):
        return self._name


class RefBuf:
    """Output buffer of a transport that keeps what it was given *by reference* until it goes out, as CPython's selector transport
    does since 3.12 (the unsent part of a write is a memoryview of the caller's object, not a copy): a caller that re-uses a mutable
    buffer after write() changes bytes that are still waiting."""

    def __init__(self):
        self.parts = []
        self.n = 0

    def __len__(self):
        return self.n

    def __bool__(self):
        return self.n > 0

    def append(self, data):
        self.parts.append(data if isinstance(data, bytes) else memoryview(data))
        self.n += len(data)

    def take(self, k):
        out = bytearray()
        while k > 0 and self.parts:
            p = self.parts[0]
            if len(p) <= k:
                out += bytes(p)
                k -= len(p)
                self.parts.pop(0)
            else:
                out += bytes(p[:k])
                self.parts[0] = p[k:]
                k = 0
        self.n -= len(out)
        return bytes(out)

    def clear(self):
        self.parts = []
        self.n = 0


class End(asyncio.Transport):
    """One end of a simulated TCP connection."""

    def __init__(self, net, conn, side):
        super().__init__()
        self.net = net
        self.conn = conn
        self.side = side  # "srv" | "cli"
        self.protocol = None
        self.peer = None
        self.outbuf = RefBuf()
        self.closing = False  # close() requested
        self.closed = False  # connection_lost delivered / scheduled
        self.eof_delivered = False  # our EOF reached the peer
        self.got_eof = False  # peer's EOF reached us
        self.rpaused = False  # own protocol paused reading
        self.hold = False  # driver: deliveries *to* this end are held (peer "stops reading")
        self.manual = False  # driver delivers what this end wrote by hand
        self.seg = None  # max bytes per delivery of what this end writes
        self.latency = 0.0
        self.high = 65536
        self.low = 16384
        self.wpaused = False
        self._pumping = False
        self.nwritten = 0
        self.ndelivered = 0
        self.discarded = 0
        self.on_write = None  # observer(bytes)
        self.on_close = None
        self.on_deliver = None  # observer(chunk): what this end wrote reaches the peer
        self.on_eof = None  # observer(): the peer's EOF / reset reaches this end

    # -- asyncio.Transport API -------------------------------------------
    def get_extra_info(self, name, default=None):
        c = self.conn
        if name == "peername":
            return c.cli_addr if self.side == "srv" else c.srv_addr
        if name == "sockname":
            return c.srv_addr if self.side == "srv" else c.cli_addr
        if name == "socket":
            return FakeSocket(c.family, self.get_extra_info("sockname"))
        return default

    def set_protocol(self, protocol):
        self.protocol = protocol

    def get_protocol(self):
        return self.protocol

    def is_closing(self):
        return self.closing or self.closed

    def is_reading(self):
        return not self.rpaused and not self.closed

    def pause_reading(self):
        self.rpaused = True

    def resume_reading(self):
        if self.rpaused:
            self.rpaused = False
            self.peer._schedule()

    def set_write_buffer_limits(self, high=None, low=None):
        if high is None:
            high = 65536 if low is None else 4 * low
        if low is None:
            low = high // 4
        self.high, self.low = high, low

    def get_write_buffer_size(self):
        return len(self.outbuf)

    def get_write_buffer_limits(self):
        return (self.low, self.high)

    def can_write_eof(self):
        return True

    def write_eof(self):
        self.close()

    def write(self, data):
        if not isinstance(data, (bytes, bytearray, memoryview)):
            raise TypeError("data argument must be a bytes-like object, not %r" % type(data).__name__)
        if not len(data):
            return
        if self.closing or self.closed:  # nothing of this reaches the wire (closed by us, or reset by the peer)
            self.discarded += len(data)
            return
        if self.on_write is not None:
            self.on_write(bytes(data))
        self.nwritten += len(data)
        if self.peer.closed:
            self.discarded += len(data)
            return
        self.outbuf.append(data)
        if not self.wpaused and len(self.outbuf) > self.high:
            self.wpaused = True
            self.protocol.pause_writing()
        self._schedule()

    def writelines(self, lines):
        self.write(b"".join(lines))

    def close(self):
        if getattr(self, "reset_unlogged", False):
            self.reset_unlogged = False
            self.net._log_close(self, by="reset")
        if self.closing or self.closed:
            return
        self.closing = True
        self.net._log_close(self)
        if self.on_close is not None:
            self.on_close()
        if not self.outbuf or self.peer.closed:
            self.outbuf.clear()
            self._finish_close(None)
        else:
            self._schedule()

    def abort(self, exc=None):
        if getattr(self, "reset_unlogged", False):
            self.reset_unlogged = False
            self.net._log_close(self, by="reset")
        if self.closed:
            return
        if not self.closing:
            self.closing = True
            self.net._log_close(self)
            if self.on_close is not None:
                self.on_close()
        self.outbuf.clear()
        self._finish_close(exc, reset=True)

    # -- machinery ---------------------------------------------------------
    def _schedule(self):
        if self._pumping or self.manual:
            return
        if not self.outbuf and not (self.closing and not self.closed):
            return
        self._pumping = True
        if self.latency:
            self.net.loop.call_later(self.latency, self._pump)
        else:
            self.net.loop.call_soon(self._pump)

    def _pump(self):
        self._pumping = False
        self.deliver(self.seg)
        if self.outbuf and not self._blocked():
            self._schedule()

    def _blocked(self):
        p = self.peer
        return p.rpaused or p.hold

    def deliver(self, n=None):
        """Deliver up to n bytes (all if None) of what this end wrote to the peer."""
        p = self.peer
        if self.outbuf and not self._blocked():
            if p.closed:
                self.discarded += len(self.outbuf)
                self.outbuf.clear()
            else:
                k = len(self.outbuf) if n is None else min(n, len(self.outbuf))
                chunk = self.outbuf.take(k)
                self.ndelivered += k
                if self.on_deliver is not None:
                    self.on_deliver(chunk)
                p.protocol.data_received(chunk)
        if self.wpaused and len(self.outbuf) <= self.low:
            self.wpaused = False
            if not self.closed:
                self.protocol.resume_writing()
        if self.closing and not self.closed and not self.outbuf:
            self._finish_close(None)

    def _finish_close(self, exc, reset=False):
        if self.closed:
            return
        self.closed = True
        p = self.peer
        loop = self.net.loop
        if self.wpaused:
            self.wpaused = False
        if not self.eof_delivered:
            self.eof_delivered = True
            if not p.closed:
                if reset:
                    loop.call_soon(p._peer_reset)
                else:
                    loop.call_soon(p._peer_eof)
        loop.call_soon(self._lost, exc)

    def _lost(self, exc):
        try:
            self.protocol.connection_lost(exc)
        finally:
            self.net._end_lost(self)

    def _peer_eof(self):
        if self.closed or self.got_eof:
            return
        self.got_eof = True
        if self.on_eof is not None:
            self.on_eof()
        keep = self.protocol.eof_received()
        if not keep:
            self.close()

    def _peer_reset(self):
        if self.closed:
            return
        self.got_eof = True
        if self.on_eof is not None:
            self.on_eof()
        if not self.closing:
            self.closing = True
            if self.side == "srv" and self.conn.kind == "ctl":
                # the server has not closed anything yet: its teardown is observed when it does (close() below), which may be
                # several loop iterations later - handlers already started go on until then
                self.reset_unlogged = True
            else:
                self.net._log_close(self, by="reset")
        self.closed = True
        self.outbuf.clear()
        self.net.loop.call_soon(self._lost, ConnectionResetError("simnet: reset by peer"))


class Conn:
    def __init__(self, net, cid, kind, session, port, host):
        self.id = cid
        self.kind = kind
        self.session = session
        self.port = port
        self.family = socket.AF_INET6 if ":" in host else socket.AF_INET
        self.srv_addr = (host, port)
        self.cli_addr = (host, 50000 + cid)
        self.srv = End(net, self, "srv")
        self.cli = End(net, self, "cli")
        self.srv.peer, self.cli.peer = self.cli, self.srv
        self.opened_at = net.now()

    def is_open(self, side=None):
        if side is None:
            return not (self.srv.closing or self.srv.closed)
        e = getattr(self, side)
        return not (e.closing or e.closed)


class FakeServer:
    def __init__(self, net, cb, host, port, owner):
        self.net = net
        self.cb = cb
        self.host = host
        self.port = port
        self.owner = owner
        self.closed = False
        self.serving = True
        self.orphan = False
        self.active = 0
        self._waiters = []
        fam = socket.AF_INET6 if ":" in (host or "") else socket.AF_INET
        if net.force_family is not None:
            fam = net.force_family
        name = (host, port) if fam == socket.AF_INET else (host, port, 0, 0)
        self._sockets = [FakeSocket(fam, name)]

    @property
    def sockets(self):
        return () if self.closed else tuple(self._sockets)

    def is_serving(self):
        return not self.closed and self.serving

    def get_loop(self):
        return self.net.loop

    def close(self):
        if self.closed:
            return
        self.closed = True
        if self.net.listeners.get(self.port) is self:
            del self.net.listeners[self.port]
        self.net.log("LsnClose", s=self.owner, port=self.port, orphan=self.orphan)
        if self.active == 0:
            self._wakeup()

    def _wakeup(self):
        ws, self._waiters = self._waiters, None
        if ws:
            for w in ws:
                if not w.done():
                    w.set_result(None)

    def _detach(self):
        self.active -= 1
        if self.active == 0 and self.closed and self._waiters is not None:
            self._wakeup()

    async def wait_closed(self):
        if self._waiters is None:
            return
        w = self.net.loop.create_future()
        self._waiters.append(w)
        await w

    async def serve_forever(self):
        await self.net.loop.create_future()

    async def start_serving(self):
        # (like asyncio.Server.start_serving: idempotent, and it yields to the loop once; the caller already holds the server, so
        # whatever happens to it when this is cancelled is the caller's business)
        if not self.serving:
            self.serving = True
        await self.net._gate("serving", self.port)

    async def __aenter__(self):
        return self

    async def __aexit__(self, *a):
        self.close()
        await self.wait_closed()


class RawEnd(asyncio.Protocol):
    """Driver-side protocol: collects what arrives."""

    def __init__(self):
        self.transport = None
        self.buf = bytearray()
        self.total = bytearray()
        self.eof = False
        self.lost = False
        self.exc = None
        self.on_data = None

    def connection_made(self, transport):
        self.transport = transport

    def data_received(self, data):
        self.buf += data
        self.total += data
        if self.on_data:
            self.on_data(data)

    def eof_received(self):
        self.eof = True
        return True

    def connection_lost(self, exc):
        self.lost = True
        self.exc = exc

    def pause_writing(self):
        pass

    def resume_writing(self):
        pass

    # convenience
    def send(self, data):
        self.transport.write(data)

    def close(self):
        self.transport.close()

    def abort(self):
        self.transport.abort()

    def take(self):
        b = bytes(self.buf)
        self.buf.clear()
        return b


class Net:
    def __init__(self, loop, host="127.0.0.1"):
        self.loop = loop
        self.host = host
        self.listeners = {}
        self.all_listeners = []
        self.conns = []
        self.events = []
        self.seq = 0
        self.port_plan = {}  # port -> list of outcomes consumed per attempt ("ok"|"inuse"|"err"), last repeats
        self.gates = {}  # (point, port) -> future factory / list of futures; see gate()
        self.gate_hook = None  # callable(point, port, session) -> awaitable or None
        self._eph = 40000
        self.force_family = None
        self.default_seg = None
        self.default_latency = 0.0
        self.strong = []  # strong refs (StreamWriter.__del__ closes dropped writers)
        self.ctl_port = None
        self.observers = []
        self.on_conn = None

    def now(self):
        return int(round(self.loop.time() * 1000))

    def log(self, ev, **kw):
        self.seq += 1
        rec = {"seq": self.seq, "t": self.now(), "ev": ev}
        rec.update(kw)
        self.events.append(rec)
        for o in self.observers:
            o(rec)
        return rec

    # -- ledger hooks -------------------------------------------------------
    def _log_close(self, end, by=None):
        c = end.conn
        end.closed_at = self.now()
        if end.side == "srv":
            self.log("CtlClose" if c.kind == "ctl" else "DataClose", s=c.session, conn=c.id, **({"by": by} if by else {}))
        else:
            self.log("CliClose", s=c.session, conn=c.id, kind=c.kind)

    def _end_lost(self, end):
        c = end.conn
        if end.side == "srv" and c.listener is not None:
            c.listener._detach()

    # -- listeners -------------------------------------------------------------
    async def _gate(self, point, port):
        aw = None
        if self.gate_hook is not None:
            aw = self.gate_hook(point, port, CUR_SESSION.get())
        if aw is None:
            await asyncio.sleep(0)
        else:
            await asyncio.shield(aw)

    def _outcome(self, port):
        plan = self.port_plan.get(port)
        if not plan:
            return "ok"
        if isinstance(plan, str):
            return plan
        return plan.pop(0) if len(plan) > 1 else plan[0]

    async def start_server(self, cb, host=None, port=None, *, ssl=None, start_serving=True, **kw):
        s = CUR_SESSION.get()
        port = port or 0
        self.log("LsnTry", s=s, port=port)
        await self._gate("prebind", port)
        out = self._outcome(port) if port else "ok"
        if out == "inuse" or (port and port in self.listeners):
            self.log("LsnFail", s=s, port=port, why="inuse")
            raise OSError(errno.EADDRINUSE, "simnet: address in use")
        if out == "err":
            self.log("LsnFail", s=s, port=port, why="err")
            raise OSError(errno.EACCES, "simnet: permission denied")
        if not port:
            self._eph += 1
            while self._eph in self.listeners:
                self._eph += 1
            port = self._eph
        srv = FakeServer(self, cb, host or self.host, port, s)
        self.listeners[port] = srv
        self.all_listeners.append(srv)
        self.log("LsnBound", s=s, port=port)
        if not start_serving:
            # asyncio semantics: bound, not listening yet, and no scheduling point after the bind; Server.start_serving() has it
            srv.serving = False
            return srv
        try:
            await self._gate("postbind", port)
        except BaseException:
            # CPython's create_server leaks the bound Server object when cancelled in its
            # final sleep(0); not aioftp's doing -> excluded from aioftp's account.
            srv.orphan = True
            self.log("LsnOrphan", s=s, port=port)
            srv.close()
            raise
        return srv

    # -- connections -------------------------------------------------------
    def connect(self, port, client_protocol, session=None, kind=None, host=None):
        srv = self.listeners.get(port)
        if srv is None or srv.closed or not srv.serving:
            raise ConnectionRefusedError(errno.ECONNREFUSED, "simnet: nothing listens on %r" % port)
        owner = session if session is not None else srv.owner
        if kind is None:
            kind = "ctl" if port == self.ctl_port else "data"
        c = Conn(self, len(self.conns) + 1, kind, owner, port, srv.host)
        c.listener = srv
        srv.active += 1
        self.conns.append(c)
        for e in (c.srv, c.cli):
            e.seg = self.default_seg
            e.latency = self.default_latency
        loop = self.loop
        reader = asyncio.StreamReader(limit=2**16, loop=loop)
        sproto = asyncio.StreamReaderProtocol(reader, srv.cb, loop=loop)
        c.srv.protocol = sproto
        c.cli.protocol = client_protocol
        self.strong.append((reader, sproto, client_protocol))
        self.log("Conn", s=owner, conn=c.id, kind=kind, port=port)
        if self.on_conn is not None:
            self.on_conn(c)
        ctx = contextvars.copy_context()
        ctx.run(CUR_SESSION.set, owner)
        ctx.run(sproto.connection_made, c.srv)
        client_protocol.connection_made(c.cli)
        return c

    def raw_connect(self, port, session=None, kind=None):
        raw = RawEnd()
        c = self.connect(port, raw, session=session, kind=kind)
        raw.conn = c
        return raw

    async def open_connection(self, host=None, port=None, *, ssl=None, **kw):
        """Replacement for asyncio.open_connection as seen by aioftp.client."""
        await asyncio.sleep(0)
        loop = self.loop
        reader = asyncio.StreamReader(limit=2**16, loop=loop)
        proto = asyncio.StreamReaderProtocol(reader, loop=loop)
        sess = CUR_SESSION.get() or None
        c = self.connect(port, proto, session=sess if port == self.ctl_port else None)
        writer = asyncio.StreamWriter(c.cli, proto, reader, loop)
        self.strong.append((writer,))
        return reader, writer

    # -- ledger queries ------------------------------------------------------
    def open_server_ends(self):
        return [c for c in self.conns if not (c.srv.closing or c.srv.closed)]

    def open_listeners(self):
        return [l for l in self.all_listeners if not l.closed]


class AsyncioProxy:
    """Stands in for the ``asyncio`` module inside aioftp.server: only
    start_server is replaced."""

    def __init__(self, net):
        self._net = net

    def __getattr__(self, name):
        if name == "start_server":
            return self._net.start_server
        return getattr(asyncio, name)
