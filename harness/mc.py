"""Design-level model checking: run a committed TLC configuration of specs/ and report its numbers."""
import hashlib
import json
import os
import re
import shutil
import tempfile

from . import tlc


class McFailure(Exception):
    pass


def _key(cfg_name):
    h = hashlib.sha256()
    for f in sorted(os.listdir(tlc.SPECS)):
        if f.endswith(".tla") or f == cfg_name + ".cfg":
            with open(os.path.join(tlc.SPECS, f), "rb") as fh:
                h.update(f.encode() + b"\0" + fh.read())
    return h.hexdigest()[:24]


def run_config(cfg_name, module, *, use_cache=True, **kw):
    """Cached front end of _run_config: the result depends only on files under /verif/specs."""
    cdir = os.path.join(tlc.VERIF, ".cache")
    path = os.path.join(cdir, "%s-%s.json" % (cfg_name, _key(cfg_name)))
    if use_cache and os.path.exists(path):
        try:
            with open(path) as fh:
                res = json.load(fh)
            res["cached"] = True
            return res
        except ValueError:
            pass  # unreadable cache entry: recompute
    res = _run_config(cfg_name, module, **kw)
    res["cached"] = False
    os.makedirs(cdir, exist_ok=True)
    tmp = "%s.%d.tmp" % (path, os.getpid())
    with open(tmp, "w") as fh:
        json.dump(res, fh)
    os.replace(tmp, path)  # atomic: concurrent check runs may share the cache
    return res


def _run_config(cfg_name, module, *, workers=16, timeout=900, coverage=True, must_cover=()):
    """Run specs/<cfg_name>.cfg on specs/<module>.tla.  Returns dict(states, transitions, depth, wall, actions)."""
    wd = tempfile.mkdtemp(prefix="verif-mc-")
    try:
        with open(os.path.join(tlc.SPECS, cfg_name + ".cfg")) as fh:
            cfg_text = fh.read()
        extra = ["-coverage", "1"] if coverage else []
        rc, out, wall = tlc.run(module, cfg_text, workdir=wd, workers=workers, timeout=timeout, extra=extra)
        st = tlc.stats(out)
        if not tlc.check_ok(out) or st is None:
            i = out.find("Error:")
            raise McFailure("TLC found an error in design configuration %s (the specification is wrong, not aioftp):\n%s"
                            % (cfg_name, out[i:i + 6000] if i >= 0 else out[-3000:]))
        actions = {}
        for m in re.finditer(r"<(\w+) line \d+, col \d+ to line \d+, col \d+ of module (\w+)(?: \([\d ]+\))?>: (\d+):(\d+)", out):
            key = m.group(1)
            d, g = int(m.group(3)), int(m.group(4))
            a = actions.setdefault(key, [0, 0])
            a[0] += d
            a[1] += g
        missing = [a for a in must_cover if actions.get(a, [0, 0])[1] == 0]
        if coverage and missing:
            raise McFailure("vacuity: actions never taken in %s: %s" % (cfg_name, missing))
        dm = re.search(r"depth of the complete state graph search is (\d+)", out)
        return {"config": cfg_name, "states": st["distinct"], "transitions": st["generated"], "depth": int(dm.group(1)) if dm else 0,
                "wall_s": round(wall, 1), "actions": {k: v[1] for k, v in sorted(actions.items())}}
    finally:
        shutil.rmtree(wd, ignore_errors=True)


def into(check, res):
    check.cov["states"] += res["states"]
    check.cov["transitions"] += res["transitions"]
    check.notes.setdefault("design_configs", []).append(res)
