"""Raw-session driver for the FtpCore binding.

Executes a *schedule* (list of environment steps) against the real server on
the simulated world, records every observable event, and translates the
record into a trace for TraceFtpCore.
"""

import re

from . import world as W

PATH_VERBS = {"cwd", "mkd", "rmd", "mlst", "mlsd", "list", "rnfr", "rnto", "dele", "stor", "appe", "retr"}
QUERY_OPS = {"exists", "is_dir", "is_file", "stat", "list"}
MUT_OPS = {"mkdir", "rmdir", "unlink", "rename"}
FILE_OPS = {"open", "seek", "write", "read", "close"}
NOARG = {"abs": False, "segs": []}


def parse_path(rest):
    return {"abs": rest.startswith("/"), "segs": [x for x in rest.split("/") if x not in ("", ".")]}


def classify_line(line):
    verb, _, rest = line.rstrip().partition(" ")
    v = verb.lower() or "<empty>"
    ev = {"v": v, "a": NOARG, "x": "", "n": 0}
    if v in PATH_VERBS:
        ev["a"] = parse_path(rest)
    elif v in ("user", "pass", "type", "prot", "epsv"):
        ev["x"] = rest
    elif v == "rest":
        if rest.isascii() and rest.isdigit():
            ev["x"], ev["n"] = "dec", int(rest)
        elif rest.isdecimal():
            ev["x"], ev["n"] = "udec", int(rest)
        elif rest.isdigit():
            ev["x"] = "nondec"
        else:
            ev["x"] = "bad"
    return ev


class ReplyAsm:
    def __init__(self, emit):
        self.buf = bytearray()
        self.multi = None
        self.lines = []
        self.emit = emit

    def feed(self, data):
        self.buf += data
        while True:
            i = self.buf.find(b"\r\n")
            if i < 0:
                return
            line = bytes(self.buf[:i]).decode("utf-8", "replace")
            del self.buf[: i + 2]
            self.lines.append(line)
            if self.multi is None:
                if line[3:4] == "-":
                    self.multi = line[:3]
                    continue
            else:
                if not line.startswith(self.multi + " "):
                    continue
            code = line[:3]
            lines, self.lines, self.multi = self.lines, [], None
            self.emit(code, lines)


class Sess:
    def __init__(self, s):
        self.s = s
        self.ctl = None
        self.data = None
        self.port = None
        self.replies = []
        self.pending_lines = []  # [end offset in the control byte stream, event fields | "garbage"]
        self.sent_total = 0
        self.delivered_total = 0
        self.tail = b""  # bytes of an unterminated line sent so far
        self.last_verb = ""
        self.active = False  # a transfer worker may exist (150 seen, no completion yet)


class CoreDriver:
    def __init__(self, world):
        self.w = world
        self.net = world.net
        self.loop = world.loop
        self.net.on_conn = self._on_conn
        self.sess = {}
        self.inbuf = {}
        self.held = {}  # s -> future (backend gate)
        self.lheld = {}  # s -> future (listener gate)
        self.gate_plan = {}  # s -> [op or None, nth]
        self.lgate_plan = {}  # s -> point
        self.fault_plan = {}  # s -> [op or None, nth]
        self.world_cfg = world.cfg
        world.ctl.gate_hook = self._fs_gate
        world.ctl.pregate_hook = self._fs_pregate
        self.pregate_plan = {}  # (s, op) -> [op, nth]
        world.ctl.fault_hook = self._fs_fault
        self.net.gate_hook = self._l_gate
        self.skipped = 0
        self.net.log("Init", tree=world.snapshot())
        self.snap()

    # -- hooks -------------------------------------------------------------
    def _on_conn(self, c):
        net = self.net
        s = c.session
        if c.kind == "ctl":
            asm = ReplyAsm(lambda code, lines: self._reply(s, code, lines))
            c.srv.on_write = asm.feed
            self.inbuf[s] = bytearray()
            c.cli.on_deliver = lambda chunk: self._ctl_delivered(s, chunk)
            def ctl_eof():
                # a line cut short by EOF is still handed to the dispatcher by StreamReader.readline()
                buf = self.inbuf.get(s)
                if buf:
                    tail = bytes(buf)
                    del buf[:]
                    self._line(s, tail)
                net.log("Vanish", s=s)

            c.srv.on_eof = ctl_eof
        else:
            c.srv.on_write = lambda data: net.log("DataOut", s=s, conn=c.id, data=list(data))
            c.cli.on_deliver = lambda chunk: net.log("DataSend", s=s, conn=c.id, data=list(chunk))
            c.srv.on_eof = lambda: net.log("DataEof", s=s, conn=c.id)

    def _reply(self, s, code, lines):
        self.net.log("Reply", s=s, code=code, lines=lines)
        st = self.sess.get(s)
        if st is not None:
            st.replies.append((code, lines))
            if code == "150":
                st.active = True
            elif code in ("226", "200", "425", "451") and st.active and not (code == "200" and st.last_verb != "mlsd"):
                # (a 451 may belong to another command sent while the transfer is still running)
                busy = any(c.kind == "data" and c.session == s and not (c.srv.closing or c.srv.closed) for c in self.net.conns)
                if not (code == "451" and busy):
                    st.active = False
            if code == "227":
                m = re.search(r"\((\d+),(\d+),(\d+),(\d+),(\d+),(\d+)\)", lines[-1])
                if m:
                    st.port = (int(m.group(5)) << 8) | int(m.group(6))
            elif code == "229":
                m = re.search(r"\(\|\|\|(\d+)\|\)", lines[-1])
                if m:
                    st.port = int(m.group(1))

    def _ctl_delivered(self, s, chunk):
        """Bytes of the control stream reach the server: every completed line is one Send (or Garbage) event."""
        buf = self.inbuf.setdefault(s, bytearray())
        if buf is None:
            return
        buf += chunk
        while True:
            i = buf.find(b"\n")
            if i < 0:
                break
            line = bytes(buf[: i + 1])
            del buf[: i + 1]
            self._line(s, line)
        if len(buf) > 2 ** 16:
            self.net.log("Garbage", s=s)
            self.inbuf[s] = None

    def _line(self, s, line):
        try:
            text = line.decode("utf-8")
            ok = len(line) <= 2 ** 16
        except UnicodeDecodeError:
            text, ok = None, False
        if not ok:
            self.net.log("Garbage", s=s)
            return
        fields = classify_line(text)
        x = self.sess.get(s)
        if x is not None:
            x.last_verb = fields["v"]
        self.net.log("Send", s=s, **fields)

    def _ctl_send(self, x, raw):
        x.ctl.send(raw)

    def _fs_gate(self, s, op, segs, kt):
        """Gate plans are keyed by (session, operation) - several calls of one session can be held at once
        (a handler and a worker); the key (s, None) matches any operation."""
        for key in ((s, op), (s, None)):
            plan = self.gate_plan.get(key)
            if plan is None or key in self.held:
                continue
            plan[1] -= 1
            if plan[1] > 0:
                return None
            del self.gate_plan[key]
            fut = self.loop.create_future()
            self.held[key] = fut
            return fut
        return None

    def _fs_pregate(self, s, op, segs, kt):
        key = (s, op)
        plan = self.pregate_plan.get(key)
        if plan is None or (s, op, "pre") in self.held:
            return None
        plan[1] -= 1
        if plan[1] > 0:
            return None
        del self.pregate_plan[key]
        fut = self.loop.create_future()
        self.held[(s, op, "pre")] = fut
        return fut

    def _fs_fault(self, s, op, segs, kt, ko):
        plan = self.fault_plan.get(s)
        if plan is None:
            return None
        if plan[0] is not None and plan[0] != op:
            return None
        plan[1] -= 1
        if plan[1] > 0:
            return None
        del self.fault_plan[s]
        if len(plan) > 2 and plan[2] == "pathioerror":   # a backend that reports failure with aioftp's own exception type
            import aioftp
            return aioftp.PathIOError()
        if len(plan) > 2 and plan[2] == "exception":     # ... or with an exception that is no OSError
            return RuntimeError("spyfs: injected failure")
        return OSError("spyfs: injected failure")

    def _l_gate(self, point, port, s):
        if self.lgate_plan.get(s) != point or s in self.lheld:
            return None
        del self.lgate_plan[s]
        fut = self.loop.create_future()
        self.lheld[s] = fut
        return fut

    # -- steps -------------------------------------------------------------------
    def step(self, st, settle=True):
        """Execute one schedule step; returns False if it was not applicable."""
        op = st[0]
        net = self.net
        ok = True
        if op == "nq":  # execute the inner step without letting the server run
            return self.step(st[1], settle=False)
        if op == "iter":  # let the event loop run exactly n iterations
            self.loop.run_iterations(st[1])
            return True
        if op == "connect":
            s = st[1]
            old = self.sess.get(s)
            if (old is not None and not old.ctl.lost) or self.w.server.server.closed:
                ok = False
            else:
                x = self.sess[s] = Sess(s)
                x.ctl = net.raw_connect(W.CTL_PORT, session=s, kind="ctl")
        elif op == "send":
            s, line = st[1], st[2]
            x = self.sess.get(s)
            fields = classify_line(line)
            if x is None or x.ctl.transport.is_closing() or x.ctl.eof:
                ok = False
            elif x.active and fields["v"] in ("retr", "stor", "appe", "list", "mlsd"):
                ok = False
            else:
                self._ctl_send(x, (line + "\r\n").encode("utf-8"))
        elif op == "sendraw":
            s, raw = st[1], bytes(st[2])
            x = self.sess.get(s)
            if x is None or x.ctl.transport.is_closing():
                ok = False
            else:
                self._ctl_send(x, raw)
        elif op == "dconnect":
            s = st[1]
            x = self.sess.get(s)
            if x is None or x.port is None or x.port not in net.listeners:
                ok = False
            else:
                if x.data is not None and not x.data.transport.is_closing():
                    x.data.close()
                    self.loop.run_quiescent()
                x.data = net.raw_connect(x.port, kind="data")
        elif op == "dsend":
            s, data = st[1], bytes(st[2])
            x = self.sess.get(s)
            if x is None or x.data is None or x.data.transport.is_closing():
                ok = False
            else:
                x.data.send(data)
        elif op == "deof":
            s = st[1]
            x = self.sess.get(s)
            if x is None or x.data is None or x.data.transport.is_closing():
                ok = False
            else:
                x.data.close()
        elif op == "vanish":
            s = st[1]
            x = self.sess.get(s)
            if x is None or x.ctl.transport.is_closing():
                ok = False
            else:
                if len(st) > 2 and st[2] == "reset":  # the control connection is reset (RST): the server's writes to it fail
                    x.ctl.abort()
                else:
                    if x.data is not None and not x.data.transport.is_closing() and len(st) > 2 and st[2] == "all":
                        x.data.close()
                    x.ctl.close()
        elif op == "hold":  # the client stops reading its data connection (flow control engages)
            s = st[1]
            x = self.sess.get(s)
            if x is None or x.data is None:
                ok = False
            else:
                x.data.transport.hold = True
                x.data.transport.peer.set_write_buffer_limits(high=st[2] if len(st) > 2 else 4, low=1)
                return True
        elif op == "holdctl":  # the client stops reading its control connection: after st[2] bytes of replies the server's writer blocks
            s = st[1]
            x = self.sess.get(s)
            if x is None or x.ctl is None:
                ok = False
            else:
                x.ctl.transport.hold = True
                x.ctl.transport.peer.set_write_buffer_limits(high=st[2] if len(st) > 2 else 4, low=1)
                return True
        elif op == "tick":
            self.loop.advance_to(self.loop.time() + st[1] / 1000)
            net.log("Tick")
        elif op == "totimer":
            nt = self.loop.next_timer()
            if nt is None:
                ok = False
            else:
                self.loop.advance_to(nt)
                net.log("Tick")
        elif op == "srvclose":
            if getattr(self, "_closing", None) is not None:
                ok = False
            else:
                net.log("ServerClose")
                self._closing = self.loop.spawn(self.w.server.close())
        elif op == "gate":
            self.gate_plan[(st[1], st[2])] = [st[2], st[3]]
            return True
        elif op == "pregate":   # hold the n-th call of that operation *before* it executes
            self.pregate_plan[(st[1], st[2])] = [st[2], st[3]]
            return True
        elif op == "lgate":
            self.lgate_plan[st[1]] = st[2]
            return True
        elif op == "fault":
            self.fault_plan[st[1]] = [st[2], st[3]] + list(st[4:5])
            return True
        elif op in ("release", "failrelease"):
            # release (or fail: the held backend calls raise OSError at that instant) everything held for the session
            for key in [k for k in self.gate_plan if k[0] == st[1]]:
                del self.gate_plan[key]
            for key in [k for k in self.pregate_plan if k[0] == st[1]]:
                del self.pregate_plan[key]
            keys = [k for k, f in self.held.items() if k[0] == st[1]]
            n = 0
            for k in keys:
                f = self.held.pop(k)
                if not f.done():
                    n += 1
                    if op == "release":
                        f.set_result(None)
                    else:
                        f.set_exception(OSError("spyfs: the held call fails"))
            if not n:
                ok = False
        elif op == "lrelease":
            self.lgate_plan.pop(st[1], None)
            f = self.lheld.pop(st[1], None)
            if f is None or f.done():
                ok = False
            else:
                f.set_result(None)
        else:
            raise ValueError(st)
        if not ok:
            self.skipped += 1
            return False
        if settle:
            self.loop.run_quiescent()
            self.snap()
        return True

    def _any_held(self):
        return any(not f.done() for f in self.held.values()) or any(not f.done() for f in self.lheld.values())

    def run(self, schedule):
        """Steps are executed in order.  ["ongate", tail, mode] arms a reaction: as soon as a gate
        holds some task, `tail` is executed; mode "stop" ends the schedule there, "continue" resumes."""
        done = []
        ongate = None
        for st in schedule:
            if st[0] == "ongate":
                ongate = st
                done.append(st)
                continue
            if self.step(st):
                done.append(st)
            if ongate is not None and self._any_held():
                tail, mode = ongate[1], ongate[2]
                ongate = None
                for t in tail:
                    if self.step(t):
                        done.append(t)
                if mode == "stop":
                    break
        return done

    def run_concurrent(self, scripts, seed, gate_prob=0.3):
        """Seeded scheduler over several sessions' scripts: backend calls are held at random and released
        at random, so handlers and workers of different sessions interleave at every backend call.
        Nothing of any script is dropped; the linearised schedule is returned (replayable with run())."""
        import random
        rng = random.Random(seed)
        todo = {s: list(sc) for s, sc in scripts.items()}
        done = []
        while True:
            held = sorted({k[0] for k, f in self.held.items() if not f.done()})
            ready = [s for s, sc in todo.items() if sc and s not in held]
            if not held and not ready:
                break
            choices = [("rel", s) for s in held] + [("step", s) for s in ready]
            kind, s = rng.choice(choices)
            if kind == "rel":
                st = ["release", s]
                if self.step(st):
                    done.append(st)
                continue
            st = todo[s].pop(0)
            if not any(k[0] == s for k in self.gate_plan) and rng.random() < gate_prob:
                g = ["gate", s, None, 1]
                self.step(g)
                done.append(g)
            if self.step(st):
                done.append(st)
        return done

    def finish(self):
        """Release every gate (so that nothing stays blocked artificially) and take a last snapshot."""
        for d in (self.held, self.lheld):
            for s, f in list(d.items()):  # keys are (session, op) for backend gates, session for listener gates
                if not f.done():
                    f.set_result(None)
            d.clear()
        self.loop.run_quiescent()
        self.snap()

    # -- projection --------------------------------------------------------------
    def snap(self):
        """Project the implementation state.  Every part is read defensively: if an internal attribute is not
        where it is expected the part is left out (flag false) and the specification skips that comparison -
        verdicts then rest on the wire, the backend calls and the socket / listener / handle ledger alone."""
        w = self.w
        srv = w.server
        net = self.net
        used, uused, pool, haspool = -1, [], [], False
        try:
            ac = srv.available_connections
            used = -1 if ac.maximum_value is None else ac.maximum_value - ac.value
        except Exception:
            used = -1
        try:
            for uid, uobj in w.users.items():
                a = srv.user_manager.available_connections[uobj]
                if a.maximum_value is not None:
                    uused.append([uid, a.maximum_value - a.value])
        except Exception:
            uused = []
        try:
            if srv.available_data_ports is not None:
                pool = sorted(p for _, p in srv.available_data_ports._queue)
                haspool = True
        except Exception:
            pool, haspool = [], False
        table, sess, hastable = [], [], False
        try:
            byport = {c.cli_addr[1]: c.session for c in net.conns if c.kind == "ctl"}
            for conn in srv.connections.values():
                fut = dict.get(conn, "client_port")
                s = byport.get(fut.result()) if fut is not None and fut.done() else None
                if s is None:
                    continue
                table.append(s)
                try:
                    def val(name, default=None):
                        f = dict.get(conn, name)
                        return f.result() if f is not None and f.done() else default

                    uobj = val("user")
                    uid = w.user_ids.get(id(uobj), "") if uobj is not None else ""
                    cwd = val("current_directory")
                    rn = val("rename_from")
                    if rn is None:
                        rnfr = ["~"]
                    else:
                        b, segs = w.ctl.vpath(rn)
                        rnfr = segs if b is not None else ["<escape>"] + segs
                    dcf = dict.get(conn, "data_connection")
                    sess.append({"s": s, "user": uid, "logged": bool(val("logged", False)),
                                 "cwd": list(cwd.parts[1:]) if cwd is not None else [],
                                 "rnfr": rnfr, "rest": int(val("restart_offset", 0) or 0),
                                 "dc": dcf is not None and dcf.done()})
                except Exception:
                    pass
            hastable = True
        except Exception:
            table, sess, hastable = [], [], False
        dsock = [c.session for c in net.conns if c.kind == "data" and not (c.srv.closing or c.srv.closed)]
        files = [h.session for h in w.ctl.open_handles()]
        lsn = [[l.owner, l.port] for l in net.open_listeners() if l.owner]
        gated = sorted({k[0] for k, f in self.held.items() if not f.done()} | {s for s, f in self.lheld.items() if not f.done()})
        # tasks of the server that belong to a session whose control socket the server has closed and which is gone from the table
        zomb = set()
        try:
            for t in self.loop.all_tasks():
                try:
                    s = t.get_context().get(simnet.CUR_SESSION)
                    mine = "/aioftp/" in t.get_coro().cr_code.co_filename
                except Exception:
                    continue
                if not s or not mine or s in table:
                    continue
                ctl = [c for c in net.conns if c.kind == "ctl" and c.session == s]
                if ctl and (ctl[-1].srv.closing or ctl[-1].srv.closed):
                    zomb.add(s)
        except Exception:
            zomb = set()
        closing = getattr(self, "_closing", None)
        # control connections the server has closed but whose socket cannot go away: replies still unsent, peer not reading
        stalled = sorted({c.session for c in net.conns if c.kind == "ctl" and c.srv.closing and not c.srv.closed and c.srv.outbuf})
        net.log("Snap", stalled=stalled, zomb=sorted(zomb), closing=closing is not None, closeok=closing is None or closing.done(), used=used, uused=uused, pool=pool, haspool=haspool, table=sorted(table), hastable=hastable, dsock=sorted(dsock),
                files=sorted(files), lsn=sorted(lsn), sess=sess, gated=gated, hastree=True, tree=w.snapshot(),
                ntasks=len(self.loop.all_tasks()))

    # -- translation -------------------------------------------------------------
    def trace(self):
        return translate(self.net.events, self.w)


def _parse_listing(verb, raw):
    out = []
    text = raw.decode("utf-8", "replace")
    for line in text.split("\r\n"):
        if not line:
            continue
        try:
            if verb == "mlsd":
                facts, _, name = line.partition(" ")
                d = dict(f.split("=", 1) for f in facts.split(";") if f)
                out.append({"name": name, "kind": d.get("Type", "?"), "size": int(d.get("Size", -1))})
            else:
                m = re.match(r"^(\S+) (\S+) (\S+) (\S+) (\d+) (.{12}) (.*)$", line)
                kind = "dir" if m.group(1)[0] == "d" else "file" if m.group(1)[0] == "-" else "?"
                out.append({"name": m.group(7), "kind": kind, "size": int(m.group(5))})
        except Exception:
            out.append({"name": "<unparsable:" + line + ">", "kind": "?", "size": -1})
    return out


def translate(events, world):
    """Raw event log -> list of TraceFtpCore events (first = Init)."""
    out = []
    last_verb = {}
    databuf = {}
    for e in events:
        ev = e["ev"]
        t = e["t"]
        s = e.get("s", 0)
        if ev == "Init":
            out.append({"ev": "Init", "t": t, "tree": e["tree"]})
        elif ev == "Conn":
            out.append({"ev": "Connect" if e["kind"] == "ctl" else "DataConnect", "s": s, "t": t})
            if e["kind"] == "data":
                databuf[e["conn"]] = bytearray()
        elif ev == "Send":
            if e["v"] in ("retr", "stor", "appe", "list", "mlsd"):
                last_verb[s] = e["v"]
            out.append({"ev": "Send", "s": s, "t": t, "v": e["v"], "a": e["a"], "x": e["x"], "n": e["n"]})
        elif ev in ("DataSend", "DataEof", "Vanish", "ServerClose", "Tick", "CtlClose", "Garbage"):
            r = {"ev": ev, "t": t}
            if ev not in ("ServerClose", "Tick"):
                r["s"] = s
            if ev == "DataSend":
                r["data"] = e["data"]
            out.append(r)
        elif ev == "Reply":
            r = {"ev": "Reply", "s": s, "t": t, "code": e["code"], "hasdir": False, "dir": [], "hasfacts": False, "ftype": "", "fsize": 0}
            lines = e.get("lines") or []
            if e["code"] == "257" and lines and lines[-1].count('"') >= 2:
                txt = lines[-1]
                inner = txt[txt.index('"') + 1: txt.rindex('"')].replace('""', '"')
                if inner.startswith("/"):
                    r["hasdir"] = True
                    r["dir"] = [x for x in inner.split("/") if x]
            elif e["code"] == "250" and len(lines) == 3 and lines[0].startswith("250-") and "=" in lines[1]:
                facts, _, _name = lines[1].strip().partition(" ")
                d = dict(f.split("=", 1) for f in facts.split(";") if "=" in f)
                if "Type" in d:
                    r["hasfacts"] = True
                    r["ftype"] = d["Type"]
                    try:
                        r["fsize"] = int(d.get("Size", -1))     # (no Size fact is not "Size=0")
                    except ValueError:
                        r["fsize"] = -1
                    if r["fsize"] >= 2 ** 31:
                        r["hasfacts"] = False
            out.append(r)
        elif ev == "DataOut":
            databuf.setdefault(e["conn"], bytearray()).extend(bytes(e["data"]))
            out.append({"ev": "DataOut", "s": s, "t": t, "data": e["data"]})
        elif ev == "DataClose":
            if last_verb.get(s) in ("list", "mlsd") and e["conn"] in databuf:
                ents = _parse_listing(last_verb[s], bytes(databuf.pop(e["conn"])))
                out.append({"ev": "Listing", "s": s, "t": t, "entries": ents})
            out.append({"ev": "DataClose", "s": s, "t": t})
        elif ev in ("LsnTry", "LsnBound"):
            if s:
                out.append({"ev": ev, "s": s, "t": t, "port": e["port"]})
        elif ev == "LsnFail":
            if s:
                out.append({"ev": ev, "s": s, "t": t, "port": e["port"], "why": e["why"]})
        elif ev == "Fs":
            if not s:
                continue
            op = e["op"]
            p = e["path"] if not e.get("escape") else ["<escape>"] + list(e["path"])
            res = e["res"]
            if isinstance(res, bool):
                res = "true" if res else "false"
            if op in QUERY_OPS:
                out.append({"ev": "FsQuery", "s": s, "t": t, "op": op, "p": p, "res": res})
            elif op in MUT_OPS:
                out.append({"ev": "FsMut", "s": s, "t": t, "op": op, "p": p, "q": e.get("to", ["~"]), "res": res})
            elif e.get("late"):
                out.append({"ev": "FsFile", "s": s, "t": t, "op": "late", "p": p, "res": "fault", "mode": "", "off": 0, "data": []})
            else:
                out.append({"ev": "FsFile", "s": s, "t": t, "op": op, "p": p, "res": res, "mode": e.get("mode", ""),
                            "off": e.get("off", 0), "data": e.get("data", []) if op == "write" else []})
        elif ev == "Snap":
            r = {k: v for k, v in e.items() if k not in ("seq", "ntasks")}
            out.append(r)
    return out
