"""Seeded schedule generators for the FtpCore binding."""

import random

from .corecheck import login, transfer

STD_USERS = [
    {"id": "u1", "login": "u1", "pw": "pw1", "max": 0, "perms": [], "home": [], "base": ["A"]},
    {"id": "u2", "login": "u2", "pw": "", "max": 0,
     "perms": [{"p": [], "r": True, "w": False}, {"p": ["h"], "r": True, "w": True}], "home": ["h"], "base": ["B"]},
    {"id": "anon", "login": "", "pw": "", "max": 0, "perms": [{"p": [], "r": True, "w": False}], "home": [], "base": ["P"]},
]

STD_TREE = {
    "d": [["A"], ["A", "d"], ["A", "d", "e"], ["B"], ["B", "h"], ["P"]],
    "f": [{"p": ["A", "f"], "c": [1, 2, 3, 4, 5]}, {"p": ["A", "d", "g"], "c": [6, 7]},
          {"p": ["B", "h", "f"], "c": [8]}, {"p": ["P", "pub"], "c": [9, 9, 9]}],
}


def std_cfg(**kw):
    c = {"ns": 2, "users": STD_USERS, "srvmax": 0, "ports": [], "usepool": False, "idle": 0, "wait": 1000,
         "sock": 0, "block": 2, "backend": "memory", "port_plan": {}}
    c.update(kw)
    return c


NAMES = ["f", "g", "d", "e", "x", "h", "pub"]
PATH_ARGS = ["f", "g", "d", "x", "d/g", "d/e", "d/x", "/f", "/d", "/d/e", "..", "../f", "d/../f", "/", "", ".",
             "d/e/..", "/d/../x", "x/y", "f/x", "//d", "d//g", "d/", "/h", "h/f", "/h/f", "pub", "../../f", "e"]
REST_ARGS = ["0", "2", "3", "9", "", "abc", "-1", " 3", "٣", "²", "1x", "007"]
LOGINS = [("u1", "pw1"), ("u1", "bad"), ("u2", None), ("nobody", None), ("anonymous", None), ("u1", None), ("u2", "x")]
SIMPLE = ["PWD", "CDUP", "SYST", "XNOP", "TYPE I", "TYPE A", "TYPE X", "PBSZ 0", "PROT P", "PROT C", "EPSV 1",
          "XFEA", "ABOR", "PASV", "EPSV", "pwd", "Pwd", "REST", "TYPE", "XMOD S", "PASS", "USER"]
PATH_VERBS = ["CWD", "MKD", "RMD", "DELE", "RNFR", "RNTO", "MLST"]
XFER = ["RETR", "STOR", "APPE", "LIST", "MLSD"]


def rand_data(rng, maxlen=5):
    n = rng.choice([0, 1, 2, 3, 4, 5][: maxlen + 1])
    return [rng.randrange(1, 250) for _ in range(n)]


def rand_session(rng, s=1, steps=12, logins=LOGINS, allow_end=True):
    """A one-at-a-time raw session touching every verb class."""
    st = [["connect", s]]
    if rng.random() < 0.8:
        u, pw = rng.choice(logins[:3])
        st.append(["send", s, "USER " + u])
        if pw is not None:
            st.append(["send", s, "PASS " + pw])
    for _ in range(steps):
        r = rng.random()
        if r < 0.12:
            u, pw = rng.choice(logins)
            st.append(["send", s, "USER " + u])
            if pw is not None and rng.random() < 0.8:
                st.append(["send", s, "PASS " + pw])
        elif r < 0.27:
            st.append(["send", s, rng.choice(SIMPLE)])
        elif r < 0.55:
            st.append(["send", s, (rng.choice(PATH_VERBS) + " " + rng.choice(PATH_ARGS)).strip()])
        elif r < 0.63:
            st.append(["send", s, ("REST " + rng.choice(REST_ARGS)).rstrip()])
        elif r < 0.66:
            st.append(["send", s, "RNFR " + rng.choice(PATH_ARGS)])
            st.append(["send", s, "RNTO " + rng.choice(PATH_ARGS)])
        elif r < 0.94:
            verb = rng.choice(XFER)
            arg = rng.choice(PATH_ARGS)
            mode = rng.choice(["before", "before", "after", "after", "never"])
            rest = rng.choice([None, None, None, "1", "3", "7"])
            if verb in ("LIST", "MLSD"):
                rest = None
            data = rand_data(rng) if verb in ("STOR", "APPE") else None
            x = transfer(s, verb, arg, pasv=rng.choice(["PASV", "EPSV"]), connect=mode, data=data,
                         chunks=rng.choice([1, 2, 3]), rest=rest)
            if mode == "after" and rng.random() < 0.35:
                # something else happens while the transfer waits for its data connection
                k = next(i for i, y in enumerate(x) if y[0] == "dconnect")
                extra = rng.choice([["send", s, "CWD " + rng.choice(PATH_ARGS)], ["send", s, "CDUP"], ["send", s, "PWD"],
                                    ["send", s, "REST 2"], ["send", s, "RNFR " + rng.choice(PATH_ARGS)], ["send", s, "TYPE A"],
                                    ["send", s, "USER " + rng.choice(["u1", "u2", "anonymous"] if logins is LOGINS else sorted({u for u, _ in logins}))]])
                x = x[:k] + [extra] + x[k:]
            if rng.random() < 0.25:
                # abort somewhere inside
                k = rng.randrange(1, len(x) + 1)
                x = x[:k] + [["send", s, "ABOR"]] + x[k:]
            if rng.random() < 0.1:
                x = [y for y in x if y[0] != "deof"]
            st += x
        else:
            st.append(["tick", rng.choice([1, 500, 1000, 1500])])
    if allow_end:
        r = rng.random()
        if r < 0.5:
            st.append(["send", s, "QUIT"])
        elif r < 0.8:
            st.append(["vanish", s])
    return st


# ---------------------------------------------------------------------------
# scripted corpus: every verb and transfer kind (one session, user given)

USER_ENV = {
    # user -> (login steps, an existing file, an existing dir, a fresh name, payload)
    "u1": (lambda s: [["send", s, "USER u1"], ["send", s, "PASS pw1"]], "f", "d", "n1"),
    "u2": (lambda s: [["send", s, "USER u2"]], "f", ".", "n2"),
    "anon": (lambda s: [["send", s, "USER anonymous"]], "pub", ".", "n3"),
}


def corpus(s=1, user="u1"):
    lg, f, d, n = USER_ENV[user]
    L = lambda: [["connect", s]] + lg(s)
    c = {}
    c["nav"] = L() + [["send", s, x] for x in (
        "PWD", "CWD " + d, "PWD", "CDUP", "MLST " + f, "MKD " + n, "CWD " + n, "CDUP", "RMD " + n, "SYST", "TYPE I",
        "RNFR " + f, "RNTO " + n, "RNFR " + n, "RNTO " + f, "QUIT")]
    c["retr_pre"] = L() + transfer(s, "RETR", f, connect="before") + [["send", s, "QUIT"]]
    c["retr_post"] = L() + transfer(s, "RETR", f, pasv="EPSV", connect="after") + [["send", s, "QUIT"]]
    c["retr_rest"] = L() + transfer(s, "RETR", f, connect="after", rest="2") + transfer(s, "RETR", f) + [["send", s, "QUIT"]]
    c["stor_pre"] = L() + transfer(s, "STOR", n, connect="before", data=[1, 2, 3, 4, 5], chunks=2) + [["send", s, "DELE " + n], ["send", s, "QUIT"]]
    c["stor_post"] = L() + transfer(s, "STOR", n, pasv="EPSV", connect="after", data=[7, 8, 9], chunks=3) + [["send", s, "MLST " + n], ["send", s, "DELE " + n], ["send", s, "QUIT"]]
    c["appe"] = L() + transfer(s, "APPE", n, connect="after", data=[1, 2]) + transfer(s, "APPE", n, connect="before", data=[3]) + [["send", s, "DELE " + n], ["send", s, "QUIT"]]
    c["stor_rest"] = L() + transfer(s, "STOR", n, connect="after", data=[1, 2, 3, 4]) + transfer(s, "STOR", n, connect="after", data=[9, 9], rest="1") + [["send", s, "DELE " + n], ["send", s, "QUIT"]]
    c["list"] = L() + transfer(s, "LIST", "", connect="after") + transfer(s, "MLSD", d, pasv="EPSV", connect="before") + [["send", s, "QUIT"]]
    c["nodata"] = L() + transfer(s, "RETR", f, connect="never") + [["send", s, "PWD"], ["send", s, "QUIT"]]
    c["relogin"] = L() + [["send", s, "PASV"], ["send", s, "RNFR " + f]] + lg(s) + [["send", s, "RNTO zz"], ["send", s, "PWD"], ["send", s, "QUIT"]]
    c["abort"] = L() + [["send", s, "PASV"], ["send", s, "STOR " + n], ["dconnect", s], ["dsend", s, [1, 2, 3]], ["send", s, "ABOR"],
                        ["send", s, "DELE " + n], ["send", s, "QUIT"]]
    c["refused"] = L() + [["send", s, x] for x in ("CWD nope", "RMD " + f, "DELE " + d, "RETR " + f, "RNTO x", "MKD " + f, "FOO", "REST x", "EPSV 1")]
    return c


def cuts(script, s, how=("vanish",)):
    """Every prefix of the script followed by an abrupt end."""
    out = []
    for k in range(1, len(script) + 1):
        for h in how:
            end = {"vanish": [["vanish", s]], "vanishall": [["vanish", s, "all"]], "reset": [["vanish", s, "reset"]]}.get(h, [["srvclose"]])
            out.append(script[:k] + end)
    return out


def count_backend_calls(result):
    return sum(1 for e in result["trace"] if e["ev"] in ("FsQuery", "FsMut", "FsFile"))


def observer_family():
    """A second session of the same user looks at (MLST / LIST / MLSD) or downloads a file while the first session's download,
    upload, append or restarted upload of that file is held in its j-th read / write."""
    fam = []
    L1 = [["connect", 1], ["send", 1, "USER u1"], ["send", 1, "PASS pw1"]]
    L2 = [["connect", 2], ["send", 2, "USER u1"], ["send", 2, "PASS pw1"]]
    looks = [[["send", 2, "MLST f"]], [["send", 2, "PASV"], ["dconnect", 2], ["send", 2, "LIST"], ["deof", 2]],
             [["send", 2, "PASV"], ["dconnect", 2], ["send", 2, "MLSD"], ["deof", 2]], [["send", 2, "MLST f"], ["send", 2, "MLST f"]],
             [["send", 2, "PASV"], ["dconnect", 2], ["send", 2, "RETR f"], ["deof", 2]],
             [["send", 2, "PASV"], ["dconnect", 2], ["send", 2, "REST 2"], ["send", 2, "RETR f"], ["deof", 2]]]
    for look in looks:
        for j in (1, 2, 3):
            fam.append(L1 + L2 + [["send", 1, "PASV"], ["dconnect", 1], ["gate", 1, "read", j], ["send", 1, "RETR f"]] + look +
                       [["release", 1], ["deof", 1], ["send", 1, "PWD"]])
            for rest in (None, 1, 3):
                for verb in ("STOR f", "APPE f", "STOR new"):
                    pre = [["send", 1, "REST %d" % rest]] if rest is not None else []
                    fam.append(L1 + L2 + [["send", 1, "PASV"], ["dconnect", 1]] + pre + [["gate", 1, "write", j], ["send", 1, verb],
                               ["dsend", 1, [21, 22, 23, 24, 25]]] + look + [["release", 1], ["deof", 1], ["send", 1, "PWD"], ["send", 2, "MLST f"]])
    return fam


def parked_restart_family():
    """REST n, then the transfer command before its data connection exists, then other commands, then the data connection:
    the transfer still starts at n (and the next transfer at 0)."""
    fam = []
    s = 1
    login = [["connect", s], ["send", s, "USER u1"], ["send", s, "PASS pw1"]]
    between = [[], [["send", s, "PWD"]], [["send", s, "TYPE I"], ["send", s, "MLST f"]], [["send", s, "CWD d"], ["send", s, "CDUP"]], [["send", s, "XYZZY"]],
               [["send", s, "REST 1"]], [["send", s, "RNFR f"]], [["tick", 300]]]
    for pasv in ("PASV", "EPSV"):
        for rest in (1, 3, 5, 9):
            for verb, data in (("RETR f", None), ("STOR f", [21, 22]), ("APPE f", [23]), ("STOR new", [24, 25, 26])):
                for b in between:
                    st = login + [["send", s, pasv], ["send", s, "REST %d" % rest], ["send", s, verb]] + b + [["dconnect", s]]
                    if data is not None:
                        st += [["dsend", s, data]]
                    st += [["deof", s], ["send", s, "MLST " + verb.split(" ")[1]]]
                    # the offset is used up: the same transfer again is a whole one
                    st += [["send", s, pasv], ["dconnect", s], ["send", s, "RETR " + verb.split(" ")[1]], ["deof", s]]
                    fam.append(st)
    return fam


def midtransfer_family():
    """Commands on the control connection while the session's own transfer is moving data (between two pieces of the upload,
    or while the download's reader has stopped reading): the transfer goes on untouched and ends with its own reply."""
    fam = []
    s = 1
    login = [["connect", s], ["send", s, "USER u1"], ["send", s, "PASS pw1"]]
    cmds = [["PASV"], ["EPSV"], ["PWD"], ["MLST f"], ["TYPE I"], ["REST 2"], ["PASV", "PASV"], ["EPSV", "PWD"], ["CWD d"], ["XYZZY"], ["MLST zz"]]
    for pasv in ("PASV", "EPSV"):
        for c in cmds:
            for verb, arg in (("STOR", "zz"), ("APPE", "f"), ("STOR", "f")):
                st = login + [["send", s, pasv], ["dconnect", s], ["send", s, verb + " " + arg], ["dsend", s, [31, 32, 33]]]
                st += [["send", s, x] for x in c] + [["dsend", s, [34, 35]], ["deof", s], ["send", s, "MLST " + arg], ["send", s, "PWD"]]
                fam.append(st)
            st = login + [["send", s, pasv], ["dconnect", s], ["gate", s, "read", 2], ["send", s, "RETR f"]] + [["send", s, x] for x in c]
            st += [["release", s], ["deof", s], ["send", s, "PWD"]]
            fam.append(st)
    return fam


def chaos(rng, ns=3):
    """Several general sessions at once, each under its own account (its own subtree: what a request held in a backend call is
    told about a path another session changes meanwhile is outside what FtpCore predicts), interleaved by the seeded scheduler
    with backend calls held at random; sessions may be cut (closed, reset) anywhere."""
    own = {1: [("u1", "pw1"), ("u1", "bad"), ("u1", None)], 2: [("u2", None)], 3: [("anonymous", None), ("nobody", None)]}
    scr = {}
    for s in range(1, ns + 1):
        sc = rand_session(rng, s, steps=rng.choice([4, 7, 10]), logins=own[s])
        # (no clock steps inside concurrent scripts: ticks are added between scheduler rounds instead)
        sc = [x for x in sc if x[0] != "tick"]
        if rng.random() < 0.3:
            k = rng.randrange(1, len(sc) + 1)
            sc = sc[:k] + [rng.choice([["vanish", s], ["vanish", s, "reset"], ["vanish", s, "all"]])]
        scr[str(s)] = sc
    sch = {"concurrent": scr, "seed": rng.randrange(1 << 30), "gate_prob": rng.choice([0.0, 0.2, 0.5])}
    return sch
