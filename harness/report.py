"""Verdicts, evidence files, replay files, known findings."""

import hashlib
import json
import os
import sys
import time

VERIF = os.path.dirname(os.path.dirname(os.path.abspath(__file__)))
KNOWN = os.path.join(VERIF, "known_findings.jsonl")


def load_known(prop):
    """Known (unrepaired) findings of `prop`; prop=None -> of every property."""
    out = []
    if os.path.exists(KNOWN):
        with open(KNOWN) as fh:
            for line in fh:
                line = line.strip()
                if not line or line.startswith("#"):
                    continue
                rec = json.loads(line)
                if (prop is None or rec.get("property") == prop) and rec.get("status") == "known":
                    out.append(rec)
    return out


class Check:
    def __init__(self, prop, tier, seed, level="model_checking"):
        self.prop = prop
        self.tier = tier
        self.seed = seed
        self.level = level
        self.t0 = time.time()
        self.violations = []
        self.known_hits = {}
        self.known = load_known(prop)
        self.known_all = load_known(None)
        self.cov = {"states": 0, "transitions": 0, "traces_validated_against_impl": 0, "samples": [],
                    "evaluations": 0, "distinct_nontrivial": 0, "rule": "", "exhaustive": False}
        self.assumptions = []
        self.notes = {}

    def add_tlc(self, st):
        if st:
            self.cov["states"] += st.get("distinct", 0)
            self.cov["transitions"] += st.get("generated", 0)

    def sample(self, x, limit=5):
        if len(self.cov["samples"]) < limit:
            self.cov["samples"].append(x)

    def violation(self, signature, detail, replay):
        """signature: dict identifying the failing input/site; matched against known findings."""
        for k in self.known:
            sig = k.get("signature", {})
            if all(signature.get(a) == b for a, b in sig.items()):
                self.known_hits.setdefault(k["slug"], k)
                return False
        digest = hashlib.sha256(json.dumps([signature, replay], sort_keys=True, default=str).encode()).hexdigest()[:12]
        path = os.path.join(VERIF, "replays", "%s-%s.json" % (self.prop, digest))
        if len(self.violations) < 20:
            os.makedirs(os.path.dirname(path), exist_ok=True)
            with open(path, "w") as fh:
                json.dump({"property": self.prop, "signature": signature, "detail": detail, "replay": replay,
                           "seed": self.seed, "tier": self.tier}, fh, indent=1, default=str)
        self.violations.append((signature, path))
        return True

    def finish(self):
        ev = {
            "property_id": self.prop,
            "tier": self.tier,
            "seed": self.seed,
            "level": self.level,
            "coverage": dict(self.cov, **self.notes),
            "assumptions": self.assumptions,
            "wall_s": round(time.time() - self.t0, 2),
            "violations": len(self.violations),
        }
        os.makedirs(os.path.join(VERIF, "evidence"), exist_ok=True)
        with open(os.path.join(VERIF, "evidence", self.prop + ".json"), "w") as fh:
            json.dump(ev, fh, indent=1, default=str)
        for slug, k in sorted(self.known_hits.items()):
            print("KNOWN-FINDING: property=%s %s: %s" % (k.get("property", self.prop), slug, k.get("what", "")))
        seen = set()
        for sig, path in self.violations:
            if path in seen:
                continue
            seen.add(path)
            if len(seen) <= 20:
                print("VIOLATION property=%s replay=%s" % (self.prop, path))
                print("  signature: %s" % json.dumps(sig, default=str))
        print("%s %s: %d evaluations, %d impl traces, %d violation(s), %.1fs" % (
            self.prop, self.tier, self.cov["evaluations"], self.cov["traces_validated_against_impl"],
            len(self.violations), time.time() - self.t0))
        return 1 if self.violations else 0
