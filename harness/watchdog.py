"""Wall-clock guard against code under test blocking the thread itself (a lock never released, a busy loop without awaits).

Virtual time cannot see that: the event loop never gets control back.  The guard is generous (a guarded run normally takes
milliseconds) and a process that has hit it once is marked poisoned - whatever blocked is probably still held - so that later runs
in that process are skipped instead of each waiting for the guard again."""
import signal

LIMIT = 90
POISONED = [False]


class HardHang(BaseException):
    pass


def _raise(signum, frame):
    raise HardHang("the code under test blocked the thread for more than %d s of wall-clock time" % LIMIT)


class guard:
    def __init__(self, seconds=None):
        self.seconds = seconds or LIMIT

    def __enter__(self):
        self.old = signal.signal(signal.SIGALRM, _raise)
        signal.setitimer(signal.ITIMER_REAL, self.seconds)
        return self

    def __exit__(self, et, ev, tb):
        signal.setitimer(signal.ITIMER_REAL, 0)
        signal.signal(signal.SIGALRM, self.old)
        if et is HardHang:
            POISONED[0] = True
        return False
