"""Virtual-time asyncio event loop, steppable from outside.

The loop never sleeps: ``time()`` is a virtual clock that only moves when the
driver says so (``advance_to``) or, in ``run_task`` auto mode, when nothing is
ready and the earliest timer lies in the future.  *Quiescent* means: no ready
callback and no timer due at the current virtual instant.
"""

import asyncio
import heapq
import threading
from asyncio import events


class Hang(Exception):
    """run_task: the task is not done, nothing is ready and no timer is armed."""


class Budget(Exception):
    """run_task / run_quiescent exceeded its iteration budget (livelock)."""


class VLoop(asyncio.SelectorEventLoop):
    def __init__(self):
        super().__init__()
        self._vt = 0.0
        self._clock_resolution = 1e-9
        self.iterations = 0
        self.inline_jobs = 0

    # -- clock ------------------------------------------------------------
    def time(self):
        return self._vt

    def _prune(self):
        while self._scheduled and self._scheduled[0]._cancelled:
            self._timer_cancelled_count -= 1
            h = heapq.heappop(self._scheduled)
            h._scheduled = False

    def next_timer(self):
        """Earliest armed (non-cancelled) timer deadline or None."""
        self._prune()
        live = [h._when for h in self._scheduled if not h._cancelled]
        return min(live) if live else None

    def _due(self):
        self._prune()
        return bool(self._scheduled) and self._scheduled[0]._when < self._vt + self._clock_resolution

    # -- stepping ---------------------------------------------------------
    class _Running:
        def __init__(self, loop):
            self.loop = loop

        def __enter__(self):
            loop = self.loop
            self.old = events._get_running_loop()
            self.nested = self.old is loop
            if not self.nested:
                loop._check_closed()
                loop._thread_id = threading.get_ident()
                events._set_running_loop(loop)

        def __exit__(self, *a):
            if not self.nested:
                self.loop._thread_id = None
                events._set_running_loop(self.old)

    def run_quiescent(self, budget=200000):
        """Run callbacks until nothing is ready and no timer is due *now*."""
        with VLoop._Running(self):
            n = 0
            while self._ready or self._due():
                self._run_once()
                self.iterations += 1
                n += 1
                if n > budget:
                    raise Budget("run_quiescent: %d iterations at t=%r" % (n, self._vt))

    def run_iterations(self, n):
        """Run at most n loop iterations at the current instant (finer than quiescence)."""
        with VLoop._Running(self):
            for _ in range(n):
                if not (self._ready or self._due()):
                    break
                self._run_once()
                self.iterations += 1

    def advance_to(self, t):
        """Move the clock to ``t`` firing every timer on the way in order."""
        while True:
            self.run_quiescent()
            nt = self.next_timer()
            if nt is None or nt > t:
                break
            if nt > self._vt:
                self._vt = nt
        if t > self._vt:
            self._vt = t
        self.run_quiescent()

    def run_task(self, coro, budget=2000000, horizon=None):
        """Run ``coro`` to completion in virtual time (auto-advancing clock).

        Raises Hang if it can never complete, Budget on livelock."""
        with VLoop._Running(self):
            task = self.create_task(coro)
        n = 0
        while not task.done():
            self.run_quiescent()
            if task.done():
                break
            nt = self.next_timer()
            if nt is None:
                task.cancel()
                self.run_quiescent()
                raise Hang("task blocked forever at t=%r" % self._vt)
            if horizon is not None and nt > horizon:
                task.cancel()
                self.run_quiescent()
                raise Hang("task still blocked at horizon t=%r" % horizon)
            self._vt = max(self._vt, nt)
            n += 1
            if n > budget:
                task.cancel()
                self.run_quiescent()
                raise Budget("run_task: %d timer jumps" % n)
        return task.result()

    def spawn(self, coro):
        with VLoop._Running(self):
            return self.create_task(coro)

    def call(self, fn, *a, **kw):
        """Call a plain function with this loop installed as the running loop."""
        with VLoop._Running(self):
            return fn(*a, **kw)

    def all_tasks(self):
        return {t for t in asyncio.all_tasks(self) if not t.done()}

    def shutdown(self):
        try:
            for t in list(self.all_tasks()):
                t.cancel()
            self.run_quiescent()
        except Exception:
            pass
        self.close()


def new_loop():
    loop = VLoop()
    loop.set_exception_handler(lambda l, ctx: l.errors.append(ctx))
    loop.errors = []
    return loop
