"""Run a 'Judge' style specification (PathModel, Transfer, ...) over recorded cases; return indices of BAD cases."""
import json
import os
import re
import shutil
import tempfile

from . import tlc


def judge(module, cases, chk, chunk=20000, env_name="CASE_FILE", timeout=1800, extra_env=None):
    bad = set()
    for off in range(0, len(cases), chunk):
        part = cases[off:off + chunk]
        wd = tempfile.mkdtemp(prefix="verif-judge-")
        try:
            cf = os.path.join(wd, "cases.json")
            with open(cf, "w") as fh:
                json.dump(part, fh)
            env = {env_name: cf}
            env.update(extra_env or {})
            rc, out, wall = tlc.run(module, "SPECIFICATION Spec\nINVARIANT Judge\nCHECK_DEADLOCK FALSE\n", workdir=wd, env=env,
                                    workers=1, timeout=timeout)
            if not tlc.check_ok(out):
                raise RuntimeError("%s run failed:\n%s" % (module, out[-3000:]))
            chk.add_tlc(tlc.stats(out))
            for m in re.finditer(r'<<"BAD(DEF)?", (\d+)>>', out):
                if m.group(1):
                    raise RuntimeError("%s: a definition-level property failed on case %r" % (module, part[int(m.group(2)) - 1]))
                bad.add(off + int(m.group(2)) - 1)
        finally:
            shutil.rmtree(wd, ignore_errors=True)
    return bad
