"""Shared engine for the FtpCore-bound properties: run schedules on the real server,
validate the recorded traces with TLC, classify rejections."""

import concurrent.futures
import json
import logging
import multiprocessing
import os
import random
import traceback

from . import watchdog, coredrv, tlc
from . import world as W

WORKER_VERBS = {"retr", "stor", "appe", "list", "mlsd"}
SPEC_KF = {"abor-before-150", "close-waits-for-stalled-peer", "user-overtakes-command"}  # deviation actions FtpCore knows (constant KF)


class _Cap(logging.Handler):
    def __init__(self):
        super().__init__(logging.DEBUG)
        self.records = []

    def emit(self, record):
        if record.levelno >= logging.ERROR:
            self.records.append(record.getMessage() + ("\n" + "".join(traceback.format_exception(*record.exc_info))[-1500:] if record.exc_info else ""))


def run_one(args):
    """(cfg, tree, schedule) -> dict(trace, done, errors, crash)"""
    cfg, tree, schedule = args
    cap = _Cap()
    lg = logging.getLogger("aioftp.server")
    lg.addHandler(cap)
    lg.setLevel(logging.ERROR)
    logging.getLogger("asyncio").setLevel(logging.CRITICAL)
    if watchdog.POISONED[0]:
        lg.removeHandler(cap)
        return {"trace": [], "done": [], "errors": [], "logged": [], "crash": None, "hardhang": "skipped"}
    w = W.World(cfg, tree)
    try:
        with watchdog.guard():
            w.start()
            d = coredrv.CoreDriver(w)
            if isinstance(schedule, dict):
                done = d.run_concurrent({int(k): v for k, v in schedule["concurrent"].items()}, schedule["seed"],
                                        schedule.get("gate_prob", 0.3))
            else:
                done = d.run(schedule)
            d.finish()
            tr = d.trace()
        errs = [str(e.get("message")) + " " + repr(e.get("exception")) for e in w.loop.errors]
        return {"trace": tr, "done": done, "errors": errs, "logged": cap.records[:5], "crash": None}
    except watchdog.HardHang as ex:  # the server code blocked the thread: no trace, but a verdict
        return {"trace": [], "done": [], "errors": [], "logged": cap.records[:5], "crash": None,
                "hardhang": "".join(traceback.format_exception(type(ex), ex, ex.__traceback__))[-1500:]}
    except BaseException as ex:  # harness failure
        return {"trace": None, "done": [], "errors": [], "logged": cap.records[:5],
                "crash": "".join(traceback.format_exception(type(ex), ex, ex.__traceback__))[-3000:]}
    finally:
        lg.removeHandler(cap)
        try:
            w.stop()
        except Exception:
            pass


_POOL = None


def _close_pool():
    if _POOL is not None:
        _POOL.close()
        _POOL.join()


def pool(procs=14):
    global _POOL
    if _POOL is None:
        ctx = multiprocessing.get_context("fork")
        _POOL = ctx.Pool(procs)
        if os.environ.get("VERIF_COV"):  # development aid: let workers exit normally so that coverage data is written
            import atexit
            atexit.register(_close_pool)
    return _POOL


def run_many(jobs, procs=14):
    """jobs: list of (cfg, tree, schedule).  Returns results in order."""
    if len(jobs) <= 4:
        return [run_one(j) for j in jobs]
    return pool(procs).map(run_one, jobs, chunksize=max(1, len(jobs) // (procs * 8)))


def first_unmatched(trace, matched):
    """matched = number of trace elements consumed (l-1); trace[matched] is the first rejected event."""
    if matched >= len(trace):
        return None
    return trace[matched]


def signature(trace, matched):
    e = first_unmatched(trace, matched)
    if e is None:
        return {"at": "end"}
    s = e.get("s")
    verb = ""
    verbs = []
    for x in trace[:matched]:
        if x["ev"] == "Send" and (s is None or x.get("s") == s):
            verb = x["v"]
        if x["ev"] == "Send":
            verbs.append(x["v"])
    sig = {"at": e["ev"], "verb": verb}
    for k in ("code", "op", "res", "why"):
        if k in e:
            sig[k] = e[k]
    if e["ev"] == "Snap":
        sig["verb"] = verbs[-1] if verbs else ""
    return sig


def validate(check, cfg, tree, schedules, *, label, procs=14, max_diag=3, sig_extra=None):
    """Run schedules under one world configuration, validate, report into `check`.

    Returns list of (schedule, result, matched, length)."""
    jobs = [(cfg, tree, s) for s in schedules]
    results = run_many(jobs, procs)
    crashes = [r for r in results if r["crash"]]
    if crashes:
        raise RuntimeError("harness failure in %s: %s" % (label, crashes[0]["crash"]))
    # runs in which the code under test blocked the thread itself (wall-clock guard): reported, not validated; runs skipped in a
    # process that had already blocked once are neither
    hung = [i for i, r in enumerate(results) if r.get("hardhang")]
    for i in hung:
        if results[i]["hardhang"] != "skipped":
            check.violation({"at": "hard-hang", "family": label}, {"where": results[i]["hardhang"]}, {"cfg": cfg, "tree": tree, "schedule": schedules[i]})
    if hung:
        check.notes["runs_not_validated_after_hard_hang"] = check.notes.get("runs_not_validated_after_hard_hang", 0) + len(hung)
        keep = [i for i in range(len(results)) if i not in set(hung)]
        part = _validate_rest(check, cfg, tree, [schedules[i] for i in keep], [results[i] for i in keep], label, procs, max_diag, sig_extra)
        out = [(schedules[i], dict(results[i], trace=[{"ev": "Init", "t": 0, "tree": tree}]), 0, 1) for i in range(len(results))]
        for j, i in enumerate(keep):
            out[i] = part[j]
        return out
    return _validate_rest(check, cfg, tree, schedules, results, label, procs, max_diag, sig_extra)


def _validate_rest(check, cfg, tree, schedules, results, label, procs, max_diag, sig_extra):
    traces = [r["trace"] for r in results]
    res, tot = tlc.validate_traces(cfg, traces, procs=procs)
    check.add_tlc(tot)
    # second pass: traces the strict specification rejects are re-validated with the deviation
    # actions of *listed* known findings enabled; only what is accepted there is a known finding
    rejected = [i for i in range(len(traces)) if res[i][0] < res[i][1]]
    diag_cfg = {}
    kf_entries = [k for k in check.known_all if k.get("signature", {}).get("kf") in SPEC_KF]
    if rejected and kf_entries:
        for k in kf_entries:
            todo = [i for i in rejected if res[i][0] < res[i][1]]
            if not todo:
                break
            cfg2 = dict(cfg, kf=[k["signature"]["kf"]])
            res2, tot2 = tlc.validate_traces(cfg2, [traces[i] for i in todo], procs=procs)
            check.add_tlc(tot2)
            for j, i in enumerate(todo):
                if res2[j][0] >= res2[j][1]:
                    res[i] = res2[j]
                    check.known_hits.setdefault(k["slug"], k)
                    check.notes["known_finding_traces"] = check.notes.get("known_finding_traces", 0) + 1
                elif res2[j][0] > res[i][0]:
                    res[i] = res2[j]
                    diag_cfg[i] = cfg2
    out = []
    ndiag = 0
    sigs_seen = set()
    for i, (sch, r) in enumerate(zip(schedules, results)):
        m, n = res[i]
        check.cov["traces_validated_against_impl"] += 1
        check.cov["evaluations"] += 1
        out.append((sch, r, m, n))
        if m < n:
            sig = signature(r["trace"], m)
            sig["family"] = label
            if sig_extra:
                sig.update(sig_extra(sch, r, m))
            key = json.dumps(sig, sort_keys=True)
            detail = {"first_unmatched": first_unmatched(r["trace"], m), "matched": m, "length": n,
                      "errors": r["errors"], "logged": r["logged"]}
            if key not in sigs_seen and ndiag < max_diag:
                new = check.violation(sig, detail, {"cfg": cfg, "tree": tree, "schedule": sch})
                if new:
                    ndiag += 1
                    try:
                        detail["last_state"] = tlc.diagnose(diag_cfg.get(i, cfg), r["trace"], m)
                        print("--- rejected trace (%s) at event %d/%d: %s" % (label, m, n, json.dumps(first_unmatched(r["trace"], m))[:400]))
                        print("    schedule: %s" % json.dumps(r["done"])[:1500])
                        if r["logged"]:
                            print("    server log: %s" % r["logged"][0][-600:])
                        print(detail["last_state"][:2500])
                    except Exception as ex:  # diagnosis is best effort
                        print("diagnosis failed:", ex)
            else:
                check.violation(sig, detail, {"cfg": cfg, "tree": tree, "schedule": sch})
            sigs_seen.add(key)
    return out


# ---------------------------------------------------------------------------
# schedule building blocks


def login(s, user="u1", pw="pw1"):
    st = [["connect", s], ["send", s, "USER " + user]]
    if pw is not None:
        st.append(["send", s, "PASS " + pw])
    return st


def transfer(s, verb, arg, *, pasv="PASV", connect="before", data=None, chunks=1, eof=True, rest=None):
    """A complete one-at-a-time transfer."""
    st = [["send", s, pasv]]
    if connect == "before":
        st.append(["dconnect", s])
    if rest is not None:
        st.append(["send", s, "REST %s" % rest])
    st.append(["send", s, ("%s %s" % (verb, arg)).strip()])
    if connect == "after":
        st.append(["dconnect", s])
    if connect == "never":
        st.append(["totimer"])
        return st
    if data:
        k = max(1, len(data) // chunks)
        for i in range(0, len(data), k):
            st.append(["dsend", s, list(data[i:i + k])])
    if eof:
        st.append(["deof", s])
    return st
