"""Run the real aioftp.Client against the real server on the simulated world and record the trace."""
import asyncio
import logging
import traceback

import aioftp

from . import coredrv, simnet, vloop, watchdog
from . import world as W


def _run_clients(cfg, tree, scenarios, *, seg=None, latency=0.0, horizon=None, keep_world=None):
    """scenarios: {session: async fn(client_factory, world) -> value}.  Each runs as its own task.

    Returns dict(trace, values, errors, hang, exc)."""
    w = W.World(cfg, tree)
    out = {"trace": None, "values": {}, "errors": [], "hang": None, "exc": {}, "crash": None}
    try:
        w.start()
        w.net.default_seg = seg
        w.net.default_latency = latency
        d = coredrv.CoreDriver(w)

        def factory(**kw):
            return aioftp.Client(**kw)

        async def one(s, fn):
            simnet.CUR_SESSION.set(s)
            try:
                out["values"][s] = await fn(factory, w)
            except (asyncio.CancelledError, watchdog.HardHang):
                raise
            except BaseException as e:  # recorded: the scenario decides what it means
                out["exc"][s] = e

        async def main():
            await asyncio.gather(*[asyncio.ensure_future(one(s, fn)) for s, fn in scenarios.items()])

        try:
            w.loop.run_task(main(), horizon=horizon)
        except (vloop.Hang, vloop.Budget) as e:
            out["hang"] = repr(e)
        d.finish()
        out["trace"] = d.trace()
        out["errors"] = [str(e.get("message")) + " " + repr(e.get("exception")) for e in w.loop.errors]
        out["final_tree"] = w.snapshot()
        if keep_world is not None:
            keep_world(w, out)
    except watchdog.HardHang:
        raise
    except BaseException as ex:
        out["crash"] = "".join(traceback.format_exception(type(ex), ex, ex.__traceback__))[-3000:]
    finally:
        try:
            w.stop()
        except Exception:
            pass
    return out


def run_clients(cfg, tree, scenarios, **kw):
    """_run_clients under the wall-clock guard: code that blocks the thread itself ends the run as a hang."""
    blank = {"trace": [], "values": {}, "errors": [], "hang": None, "exc": {}, "crash": None, "final_tree": {"d": [], "f": []}}
    if watchdog.POISONED[0]:
        return dict(blank, hang="skipped: this process already blocked once (wall-clock guard)")
    try:
        with watchdog.guard():
            return _run_clients(cfg, tree, scenarios, **kw)
    except watchdog.HardHang as ex:
        return dict(blank, hang="hard: " + str(ex))
