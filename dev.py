#!/venv/bin/python
"""dev helper: run a schedule family and group rejections"""
import sys, json, random, collections
sys.path.insert(0, "/verif")
from harness import corecheck, gen, tlc
def compact(e):
    if e["ev"]=="Snap": return "Snap t=%s sess=%s dsock=%s files=%s lsn=%s table=%s pool=%s used=%s gated=%s" % (e["t"], [(x["s"],x["user"],x["logged"],x["cwd"],x["rnfr"],x["rest"],x["dc"]) for x in e["sess"]], e["dsock"], e["files"], e["lsn"], e["table"], e["pool"], e["used"], e["gated"])
    return json.dumps({k:v for k,v in e.items() if k not in("a",) or v["segs"] or v["abs"]})
def show(cfg, tree, scheds, nshow=1, ctx=10, state=False):
    jobs=[(cfg,tree,s) for s in scheds]
    results=corecheck.run_many(jobs)
    for r in results:
        if r["crash"]: print(r["crash"]); return
    res,tot=tlc.validate_traces(cfg,[r["trace"] for r in results])
    groups=collections.defaultdict(list)
    for i,r in enumerate(results):
        m,n=res[i]
        if m<n:
            groups[json.dumps(corecheck.signature(r["trace"],m),sort_keys=True)].append((i,m,n))
    print("%d traces, %d rejected, %d signatures"%(len(results),sum(len(v) for v in groups.values()),len(groups)))
    for k,v in sorted(groups.items(), key=lambda kv:-len(kv[1])):
        print("=====",len(v),k)
        for (i,m,n) in sorted(v,key=lambda x:x[2])[:nshow]:
            tr=results[i]["trace"]
            print("  schedule:",json.dumps(results[i]["done"]))
            for e in tr[max(1,m-ctx):m]:
                if e["ev"]!="Snap": print("     ",compact(e))
                elif e is tr[m-1]: print("     ",compact(e))
            print("  >>> ",compact(tr[m]))
            if results[i]["logged"]: print("  LOG:",results[i]["logged"][0][-500:])
            if state:
                d=tlc.diagnose(cfg,tr,m)
                import re
                # print only session record of interest
                print(re.sub(r"\s+"," ",d)[:1800])
    return results,res
if __name__=="__main__":
    fam=sys.argv[1]; n=int(sys.argv[2]); seed=int(sys.argv[3]) if len(sys.argv)>3 else 0
    rng=random.Random(seed)
    if fam.startswith("c"):
        import importlib
        mod=importlib.import_module("checks."+fam)
        fams=mod.families("quick" if n==0 else "thorough", rng)
        pool=len(sys.argv)>4 and sys.argv[4]=="pool"
        cfg=mod.dev_cfg(pool) if hasattr(mod,"dev_cfg") else gen.std_cfg(ns=1, usepool=pool, ports=[3001,3002] if pool else [])
        show(cfg,gen.STD_TREE,[(s_[-1] if isinstance(s_,tuple) else s_) for _,s_ in fams], state=len(sys.argv)>5)
    if fam=="rand":
        cfg=gen.std_cfg(ns=1)
        show(cfg,gen.STD_TREE,[gen.rand_session(rng,1,steps=rng.choice([6,10,16])) for _ in range(n)])
