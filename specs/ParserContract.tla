-------------------------- MODULE ParserContract --------------------------
(***************************************************************************)
(* Contract of the client's entry points that digest text sent by a        *)
(* server: whatever the text, the call returns a well-typed value or       *)
(* raises an ordinary exception - for listing lines always the documented  *)
(* ValueError - and terminates; a line that cannot be parsed is reported   *)
(* (raised), never silently dropped.  Judge walks over recorded outcomes   *)
(* for mutated inputs (descriptor = template x field x mutation kind).     *)
(***************************************************************************)
EXTENDS Naturals, Sequences, FiniteSets, TLC, Json, IOUtils
VARIABLE i
Cases == JsonDeserialize(IOEnv.CASE_FILE)
ListEntry == {"parse_list_line", "parse_list_line_unix_via_chain"}
Allowed(entry) ==
  IF entry \in ListEntry THEN {"typed", "ValueError"}
  ELSE {"typed", "Exception", "ValueError"}
Ok(c) ==
  /\ c.outcome \in Allowed(c.entry)          \* never BaseException, never an ill-typed value, never a hang ("hang" is no member)
  /\ (c.entry = "list" => c.outcome \in {"typed", "Exception"} /\ c.steps <= c.budget)
  /\ (c.entry = "list" /\ c.outcome = "typed" => c.entries_returned = c.lines_sent - c.dots)   \* every line reported once; only '.'/'..' skipped
  /\ (c.entry = "list" /\ c.unparsable > 0 => c.outcome = "Exception")                \* reported, not dropped
Init == i = 1
Next == i <= Len(Cases) /\ i' = i + 1
Spec == Init /\ [][Next]_i
Judge == i > Len(Cases) \/ Ok(Cases[i]) \/ PrintT(<<"BAD", i>>)
=============================================================================
