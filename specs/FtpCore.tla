------------------------------- MODULE FtpCore -------------------------------
(***************************************************************************)
(* Implementation-shaped model of the aioftp server: sessions, the command *)
(* dispatcher, handlers, transfer workers, passive listeners and the port  *)
(* pool, connection-slot accounting, the file tree, timers and teardown.   *)
(*                                                                         *)
(* Every action is bound to one *observable* event of the implementation   *)
(* (a line received, a reply written, a backend mutation, a listener       *)
(* start-up step, data written / closed, the control socket closed), so a  *)
(* recorded execution is validated with no silent steps (TraceFtpCore),    *)
(* and the same actions driven by a nondeterministic environment are model *)
(* checked for the listed properties (MC_* configurations).                *)
(***************************************************************************)
EXTENDS Naturals, Integers, Sequences, FiniteSets, TLC, FsOps

CONSTANTS
  NS,        \* sessions are 1..NS
  Users,     \* set of user ids (strings, never "")
  UCfg,      \* [Users -> [login, pw, max, perms, home, base]]  ("" login = anonymous entry, "" pw = none, max 0 = unlimited)
  SrvMax,    \* 0 = unlimited
  Ports,     \* configured passive ports
  UsePool,   \* TRUE: data_ports configured (Ports), FALSE: ephemeral ports
  Idle, WaitData, SockT,  \* timeouts in ms, 0 = off
  LateDrop,  \* TRUE: the user manager's logout notification awaits, so USER forgets the previous login some time after its handler
             \* started (FALSE: at once, as with the stock user manager)
  V6,        \* TRUE: the server listens on an IPv6 address (PASV cannot be answered: 503 and the session is ended)
  KF         \* set of known-finding slugs whose deviating behaviour is admitted (always {} for the design)

VARIABLES
  tree,      \* [d: set of directory paths (root <<>> implicit), f: [file paths -> content (Seq of bytes)]]
  ss,        \* [1..NS -> session record]
  uused,     \* [Users -> number of sessions attached]
  used,      \* number of admitted sessions (server slots taken)
  pool,      \* set of <<priority, port>>
  table,     \* set of sessions in the server's connection table
  srv,       \* "up" | "closed"
  now        \* virtual time, ms

vars == <<tree, ss, uused, used, pool, table, srv, now>>

Sessions == 1..NS
NoPath == <<"~">>
NoArg  == [abs |-> FALSE, segs |-> <<>>]

-----------------------------------------------------------------------------
(* Users and permissions *)

Named(login) == {u \in Users : UCfg[u].login = login /\ login # ""}
Anon == {u \in Users : UCfg[u].login = ""}
UserOf(login) == IF Named(login) # {} THEN Named(login) ELSE Anon   \* set: {} or singleton
Locked(uu, u) == UCfg[u].max # 0 /\ uu[u] >= UCfg[u].max
NeedsPw(u) == UCfg[u].login # "" /\ UCfg[u].pw # ""

Applicable(u, vp) == {i \in 1..Len(UCfg[u].perms) : IsPrefix(UCfg[u].perms[i].p, vp)}
NearestIdx(u, vp) == {i \in Applicable(u, vp) :
                        \A j \in Applicable(u, vp) : Len(UCfg[u].perms[j].p) <= Len(UCfg[u].perms[i].p)}
\* set of admissible answers (several when equally near entries disagree)
PermSet(u, vp, bit) ==
  IF NearestIdx(u, vp) = {} THEN {TRUE}
  ELSE {IF bit = "r" THEN UCfg[u].perms[i].r ELSE UCfg[u].perms[i].w : i \in NearestIdx(u, vp)}

Real(u, vp) == UCfg[u].base \o vp

-----------------------------------------------------------------------------
(* Session records *)

\* c0: the working directory at the instant the command line was read (where its path conditions are evaluated)
NoH == [v |-> "", a |-> NoArg, x |-> "", n |-> 0, pc |-> "", port |-> 0, prio |-> 0, viewed |-> {}, failed |-> FALSE, c0 |-> <<>>, u0 |-> "", l0 |-> FALSE]
NoW == [v |-> "", p |-> NoPath, st |-> "", off |-> 0, sock |-> FALSE, fopen |-> FALSE, fdone |-> FALSE,
        seeked |-> FALSE, pos |-> 0, dl |-> 0, listed |-> FALSE, had |-> FALSE, ub |-> "", mv |-> FALSE]

InitSess == [ph |-> "idle", ceof |-> FALSE, user |-> "", logged |-> FALSE, acq |-> FALSE,
             cwd |-> <<>>, rnfr |-> NoPath, rest |-> 0, ttype |-> "", lsn |-> 0, dc |-> "none", xd |-> 0,
             h |-> NoH, w |-> NoW, outq |-> <<>>, line |-> 0, din |-> <<>>, dineof |-> FALSE,
             crash |-> FALSE, cdata |-> FALSE, ab |-> "", h2 |-> NoH]

TransferVerbs == {"retr", "stor", "appe"}
ListVerbs == {"list", "mlsd"}
WorkerVerbs == TransferVerbs \cup ListVerbs
KnownVerbs == {"abor", "appe", "cdup", "cwd", "dele", "epsv", "list", "mkd", "mlsd", "mlst", "pass", "pasv",
               "pbsz", "prot", "pwd", "quit", "rest", "retr", "rmd", "rnfr", "rnto", "stor", "syst", "type", "user"}
OvertakenVerbs == {"mkd", "rmd", "dele", "rnto", "rnfr", "mlst", "cwd", "cdup"}
OvertakingVerbs == {"cwd", "cdup", "pwd", "type", "syst"}
DoneCode(v) == IF v = "mlsd" THEN "200" ELSE "226"

Init ==
  /\ ss = [s \in Sessions |-> InitSess]
  /\ uused = [u \in Users |-> 0]
  /\ used = 0
  /\ pool = IF UsePool THEN {<<0, p>> : p \in Ports} ELSE {}
  /\ table = {}
  /\ srv = "up"
  /\ now = 0

\* An ABOR that overtook a running handler (ab = "pend") becomes an ordinary pending ABOR once that handler is done;
\* one that was already answered (ab = "done") is forgotten.
Fin0(r) == IF r.h.v = "" /\ r.ab = "pend" THEN [r EXCEPT !.h.v = "abor", !.ab = ""]
           ELSE IF r.h.v = "" /\ r.ab = "done" THEN [r EXCEPT !.ab = ""] ELSE r
\* ... and a pipelined command whose predecessor is done is an ordinary pending command
Fin(r) == LET q == Fin0(r) IN IF q.h = NoH /\ q.h2 # NoH THEN [q EXCEPT !.h = q.h2, !.h2 = NoH] ELSE q
Upd(s, r) == ss' = [ss EXCEPT ![s] = Fin(r)]

-----------------------------------------------------------------------------
(* Time: an event at time t is possible only if no armed deadline is skipped *)

IdleDl(r) == r.line + Idle
WaitDl(r) == r.w.dl
Deadlines ==
  {IdleDl(ss[s]) : s \in {x \in Sessions : Idle > 0 /\ ss[x].ph = "open"}}
  \cup {ss[s].w.dl : s \in {x \in Sessions : ss[x].ph = "open" /\ ss[x].w.v # "" /\ ss[x].w.dl > 0
                                              /\ ss[x].w.st \in {"wait", "run"}}}
TimeOk(t) == t >= now /\ \A d \in Deadlines : t <= d
Overdue == \E d \in Deadlines : d <= now
At(t) == TimeOk(t) /\ now' = t


-----------------------------------------------------------------------------
(* Environment: the client side *)

CanConnect(s) == srv = "up" /\ ss[s].ph \in {"idle", "dead"} /\ ss[s].w.v = "" /\ ss[s].xd = 0

Connect(s, t) ==
  /\ CanConnect(s) /\ At(t)
  /\ Upd(s, [InitSess EXCEPT !.ph = "open", !.line = t, !.h = [NoH EXCEPT !.v = "greeting"]])
  /\ table' = table \cup {s}
  /\ UNCHANGED <<tree, uused, used, pool, srv>>

\* A complete command line reaches the server.  The dispatcher re-arms the reader
\* (idle timer) and resets the restart offset for every known non-transfer verb.
SendLine(s, t, v, a, x, n) ==
  LET r == ss[s] IN
  /\ r.ph = "open" /\ ~r.ceof /\ At(t)
  /\ \/ /\ r.h = NoH
        /\ \E rst \in (IF v \in KnownVerbs \ TransferVerbs THEN {0}
                       ELSE IF v \in TransferVerbs THEN {r.rest} ELSE {0, r.rest}) :
             Upd(s, [r EXCEPT !.h = [NoH EXCEPT !.v = v, !.a = a, !.x = x, !.n = IF v \in TransferVerbs THEN r.rest ELSE n, !.c0 = r.cwd, !.u0 = r.user, !.l0 = r.logged],
                              !.line = t, !.rest = rst,
                              !.ab = IF r.ab = "done" THEN "" ELSE @])
        /\ UNCHANGED uused
     \/ \* ABOR arriving while the handler of the previous command is still running
        /\ r.h # NoH /\ r.h.v # "abor" /\ v = "abor" /\ r.ab = ""
        /\ Upd(s, [r EXCEPT !.ab = "pend", !.line = t, !.rest = 0])
        /\ UNCHANGED uused
     \/ \* pipelining: a command that touches neither the tree nor the login arrives while the handler of the previous
        \* (non-transfer) command is still suspended in the backend; it is handled at once and may overtake it
        /\ r.h # NoH /\ r.h2 = NoH /\ r.ab = ""
        /\ \/ r.h.v \in OvertakenVerbs /\ v \in OvertakingVerbs
           \/ r.h.v \in OvertakenVerbs /\ v = "user" \* USER while a path command is suspended in the backend
           \/ r.h.v = "pass" /\ v = "user"      \* USER again while the password is still being checked (a user manager that awaits)
           \/ r.h.v = "user" /\ v \in {"user", "pass", "pwd", "type", "syst"}   \* ... or while the account is still being looked up
           \/ r.h.v \in {"pasv", "epsv"} /\ v \in {"pasv", "epsv"}      \* a second passive command while the listener is being opened:
                                                                      \* it waits for that listener (one per session)
        \* USER forgets the previous login when its handler starts, not when it answers: a pending USER has done so already,
        \* an overtaking one has or has not by the time the overtaken handler resumes
        /\ \E early \in (IF r.h.v = "user" /\ ~LateDrop THEN {TRUE} ELSE IF "user" \in {v, r.h.v} THEN BOOLEAN ELSE {FALSE}) :
             LET r0 == IF early THEN [r EXCEPT !.user = "", !.logged = FALSE, !.rnfr = NoPath] ELSE r IN
             /\ Upd(s, [r0 EXCEPT !.h2 = [NoH EXCEPT !.v = v, !.a = a, !.x = x, !.n = n, !.c0 = r.cwd, !.u0 = r0.user, !.l0 = r0.logged], !.line = t, !.rest = 0])
             /\ uused' = IF early /\ r.user # "" THEN [uused EXCEPT ![r.user] = @ - 1] ELSE uused
  /\ UNCHANGED <<tree, used, pool, table, srv>>

\* A line the server cannot decode or that exceeds the stream limit: the session ends (nothing else may happen)
Garbage(s, t) ==
  LET r == ss[s] IN
  /\ r.ph = "open" /\ ~r.ceof /\ At(t)
  /\ Upd(s, [r EXCEPT !.crash = TRUE])
  /\ UNCHANGED <<tree, uused, used, pool, table, srv>>

\* the client opens a data connection to the session's passive listener
DataConnect(s, t) ==
  LET r == ss[s] IN
  /\ r.ph \in {"open", "drain"} /\ r.lsn # 0 /\ At(t)
  /\ IF r.dc = "parked"                                              \* (a worker that has taken its connection does not
       THEN Upd(s, [r EXCEPT !.xd = @ + 1])                          \*  stand in the way)  refused: closed at once
     ELSE IF r.w.v # "" /\ r.w.st = "wait"
       THEN Upd(s, [r EXCEPT !.w.st = "run", !.w.sock = TRUE, !.w.had = TRUE, !.cdata = TRUE, !.din = <<>>, !.dineof = FALSE,
                             !.w.dl = IF SockT > 0 THEN t + SockT ELSE 0])
     \* (an upload worker that has already received everything, end of file included, keeps that knowledge: mv)
     ELSE Upd(s, [r EXCEPT !.dc = "parked", !.cdata = TRUE, !.din = <<>>, !.dineof = FALSE,
                           !.w.mv = @ \/ (r.w.v \in {"stor", "appe"} /\ r.w.st = "run" /\ r.din = <<>> /\ r.dineof)])
  /\ UNCHANGED <<tree, uused, used, pool, table, srv>>

DataSend(s, t, data) ==
  LET r == ss[s] IN
  /\ r.cdata /\ ~r.dineof /\ At(t)
  /\ Upd(s, [r EXCEPT !.din = @ \o data,
                      !.w.dl = IF r.w.v \in {"stor", "appe"} /\ r.w.st = "run" /\ SockT > 0 THEN t + SockT ELSE @])
  /\ UNCHANGED <<tree, uused, used, pool, table, srv>>

DataEof(s, t) ==
  LET r == ss[s] IN
  /\ r.cdata /\ ~r.dineof /\ At(t)
  /\ Upd(s, [r EXCEPT !.dineof = TRUE])
  /\ UNCHANGED <<tree, uused, used, pool, table, srv>>

\* the peer closes (or resets) the control connection
Vanish(s, t) ==
  /\ ss[s].ph \in {"open", "drain"} /\ ~ss[s].ceof /\ At(t)
  /\ Upd(s, [ss[s] EXCEPT !.ceof = TRUE])
  /\ UNCHANGED <<tree, uused, used, pool, table, srv>>

ServerClose(t) ==
  /\ srv = "up" /\ At(t) /\ srv' = "closed"
  /\ UNCHANGED <<tree, ss, uused, used, pool, table>>

Tick(t) == At(t) /\ UNCHANGED <<tree, ss, uused, used, pool, table, srv>>

-----------------------------------------------------------------------------
(* Handlers: the verdict of the decorator stack and the body's outcome *)

NeedLsn   == {"mlsd", "list", "stor", "appe", "retr"}
MustExist == {"cwd", "cdup", "rmd", "mlst", "mlsd", "list", "rnfr", "dele", "retr"}
MustNot   == {"mkd", "rnto"}
MustDir   == {"cwd", "cdup", "rmd"}
MustFile  == {"dele", "retr"}
ReadVerbs == {"cwd", "cdup", "mlst", "mlsd", "list", "retr"}
WriteVerbs == {"mkd", "rmd", "rnfr", "rnto", "dele", "stor", "appe"}
PathVerbs == ReadVerbs \cup WriteVerbs
LoginVerbs == PathVerbs \cup {"pwd", "type", "pbsz", "prot", "pasv", "epsv", "abor"}
MutVerbs  == {"mkd", "rmd", "dele", "rnto"}

VPath(r) == IF r.h.v = "cdup" THEN Parent(r.cwd) ELSE Resolve(r.cwd, r.h.a)
RPath(r) == Real(r.user, VPath(r))
\* the path conditions (exists / is_dir / is_file) are evaluated when the command is read, on the working directory of that
\* instant; permission and the action itself use the working directory in force when the handler gets there (the same one
\* unless a pipelined CWD / CDUP overtook the handler in between)
\* (... and on the tree of the account of that instant: only a USER that overtakes the suspended command can make it another one)
CPath(r) == Real(IF r.h.u0 # "" THEN r.h.u0 ELSE r.user, IF r.h.v = "cdup" THEN Parent(r.h.c0) ELSE Resolve(r.h.c0, r.h.a))

\* A command is served only while the login it was read under stands.  The shipped server checks the login once, when the
\* handler starts: a USER that overtakes a command suspended in the backend re-targets it - its permission check and its
\* action happen in the tree of the account USER named, password or not (known finding user-overtakes-command).
StillLogged(r) == r.logged \/ ("user-overtakes-command" \in KF /\ r.h.l0 /\ r.user # "")

\* set of admissible verdicts of the guards of a path verb: "" = passes
Verdicts(r) ==
  LET v == r.h.v IN
  IF ~StillLogged(r) THEN {"503"}
  ELSE IF v \in NeedLsn /\ r.lsn = 0 THEN {"503"}
  ELSE IF v = "rnto" /\ r.rnfr = NoPath THEN {"503"}
  ELSE IF v \in MustExist /\ ~ExistsT(tree, CPath(r)) THEN {"550"}
  ELSE IF v \in MustNot /\ ExistsT(tree, CPath(r)) THEN {"550"}
  ELSE IF v \in MustDir /\ ~IsDirT(tree, CPath(r)) THEN {"550"}
  ELSE IF v \in MustFile /\ ~IsFileT(tree, CPath(r)) THEN {"550"}
  ELSE LET ps == PermSet(r.user, VPath(r), IF v \in ReadVerbs THEN "r" ELSE "w") IN
       {IF ok THEN (IF v \in {"stor", "appe"} /\ ~IsDirT(tree, Real(r.user, Parent(VPath(r)))) THEN "550" ELSE "")
              ELSE "550" : ok \in ps}

\* A transfer must not be started once an ABOR that arrived after the transfer command has been answered
\* ("nothing to abort"); the shipped server does just that: known finding abor-before-150.
MaySpawn(r) == r.ab # "done" \/ "abor-before-150" \in KF

Spawn(r, t) ==
  LET parked == r.dc = "parked" IN
  [NoW EXCEPT !.v = r.h.v, !.p = RPath(r), !.ub = r.user, !.st = IF parked THEN "run" ELSE "wait",
              !.off = r.h.n,
              !.sock = parked, !.had = parked,
              !.dl = IF parked THEN (IF SockT > 0 THEN t + SockT ELSE 0)
                     ELSE (IF WaitData > 0 THEN t + WaitData ELSE 0)]

MutCode(v) == IF v = "mkd" THEN "257" ELSE "250"
Out(rep, r, uu, us) == [rep |-> rep, r |-> Fin([r EXCEPT !.h = NoH]), uu |-> uu, us |-> us]

\* Outcomes of a pending handler that performs no backend mutation and no listener start-up.
\* (t = the instant at which its first reply is written.)
Outcomes(r, t) ==
  LET v == r.h.v
      same(rep, r2) == {Out(rep, r2, uused, used)}
  IN
  CASE v = "greeting" ->
         IF SrvMax # 0 /\ used >= SrvMax
           THEN {Out(<<"421">>, [r EXCEPT !.ph = "drain"], uused, used)}
           ELSE {Out(<<"220">>, [r EXCEPT !.acq = TRUE], uused, used + 1)}
    [] v = "user" ->
         LET uu1 == IF r.user # "" THEN [uused EXCEPT ![r.user] = @ - 1] ELSE uused
             r1  == [r EXCEPT !.user = "", !.logged = FALSE, !.rnfr = NoPath]
             cand == UserOf(r.h.x)
             \* a login found in place by a pipelined USER that dropped the login when it started was made by another USER
             \* meanwhile: it is superseded, and it may still have held its slot when this account was looked up
             conc == r.h.u0 = "" /\ r.user # ""
             \* a pipelined command still unanswered when USER is answered has not started yet: it will see the new login
             \* (a pipelined USER keeps its mark - u0 = "" - of having dropped the login when it started: see conc)
             rc(q) == IF q.h2 = NoH \/ q.h2.v = "user" THEN q ELSE [q EXCEPT !.h2.u0 = q.user, !.h2.c0 = q.cwd, !.h2.l0 = q.logged]
             with(uu) == IF cand = {} THEN {Out(<<"530">>, rc(r1), uu1, used)}
                         ELSE LET u == CHOOSE c \in cand : TRUE IN
                              IF Locked(uu, u) THEN {Out(<<"530">>, rc(r1), uu1, used)}
                              ELSE LET uu2 == [uu1 EXCEPT ![u] = @ + 1]
                                       r2 == rc([r1 EXCEPT !.user = u, !.cwd = UCfg[u].home]) IN
                                   IF NeedsPw(u) THEN {Out(<<"331">>, r2, uu2, used)}
                                   ELSE {Out(<<"230">>, [r2 EXCEPT !.logged = TRUE], uu2, used)}
         IN IF conc THEN with(uu1) \cup with(uused) ELSE with(uu1)
    [] v = "pass" ->
         \* a password authorises only the account it was sent for: if USER was sent again meanwhile the PASS is out of sequence
         IF r.h.u0 # r.user THEN same(<<"503">>, r) \cup same(<<"530">>, r)
         ELSE IF r.user = "" THEN same(<<"503">>, r)
         ELSE IF r.logged THEN same(<<"503">>, r)
         ELSE IF UCfg[r.user].pw = r.h.x THEN same(<<"230">>, [r EXCEPT !.logged = TRUE])
         ELSE same(<<"530">>, r)
    [] v = "quit" -> same(<<"221">>, [r EXCEPT !.ph = "drain"])
    [] v = "rest" ->
         IF r.h.x = "dec" THEN same(<<"350">>, [r EXCEPT !.rest = r.h.n])
         ELSE IF r.h.x = "udec" THEN same(<<"350">>, [r EXCEPT !.rest = r.h.n]) \cup same(<<"501">>, [r EXCEPT !.rest = 0])
         ELSE same(<<"501">>, [r EXCEPT !.rest = 0])
    [] v = "syst" -> same(<<"215">>, r)
    [] v \notin KnownVerbs -> same(<<"502">>, r)
    [] v \in LoginVerbs /\ ~(IF v \in PathVerbs THEN StillLogged(r) ELSE r.logged) -> same(<<"503">>, r)
    [] v = "pwd" -> same(<<"257">>, r)
    [] v = "type" -> IF r.h.x \in {"I", "A"} THEN same(<<"200">>, [r EXCEPT !.ttype = r.h.x]) ELSE same(<<"502">>, r)
    [] v = "pbsz" -> same(<<"200">>, r)
    [] v = "prot" -> IF r.h.x = "P" THEN same(<<"200">>, r) ELSE same(<<"502">>, r)
    [] v = "epsv" /\ r.h.x # "" -> same(<<"522">>, [r EXCEPT !.ph = "drain"])
    [] v = "pasv" /\ V6 ->      \* the listener is opened (or already there) before the address family is looked at
         IF r.lsn # 0 /\ r.h.pc = "" THEN same(<<"503">>, [r EXCEPT !.ph = "drain"])
         ELSE IF r.h.pc = "bound" THEN same(<<"503">>, [r EXCEPT !.lsn = r.h.port, !.ph = "drain"])
         ELSE {}
    [] v \in {"pasv", "epsv"} ->
         IF r.lsn # 0 /\ r.h.pc = ""       \* listener already there: drop a parked data connection
           THEN same(<<IF v = "pasv" THEN "227" ELSE "229">>,
                     [r EXCEPT !.dc = "none", !.xd = IF r.dc = "parked" THEN @ + 1 ELSE @,
                               !.cdata = IF r.dc = "parked" THEN FALSE ELSE @])
         ELSE IF r.h.pc = "bound"
           THEN same(<<IF v = "pasv" THEN "227" ELSE "229">>, [r EXCEPT !.lsn = r.h.port])
         ELSE {}
    [] v = "abor" -> IF r.w.v = "" THEN same(<<"226">>, r) ELSE {}
    [] v \in MutVerbs ->
         IF r.h.pc = "mutdone" THEN same(<<MutCode(v)>>, r)            \* the mutation is done: its success reply
         ELSE {Out(<<c>>, r, uused, used) : c \in Verdicts(r) \ {""}}
    [] v \in PathVerbs ->
         UNION {IF c # "" THEN
                  \* a refused transfer command may or may not use up the restart offset
                  (IF v \in TransferVerbs THEN same(<<c>>, r) \cup same(<<c>>, [r EXCEPT !.rest = 0]) ELSE same(<<c>>, r))
                ELSE CASE v \in {"cwd", "cdup"} -> same(<<"250">>, [r EXCEPT !.cwd = VPath(r)])
                       [] v = "mlst" -> same(<<"250">>, r)
                       [] v = "rnfr" -> same(<<"350">>, [r EXCEPT !.rnfr = RPath(r)])
                       [] OTHER -> IF MaySpawn(r)
                                     THEN same(<<"150">>, [r EXCEPT !.w = Spawn(r, t), !.rest = 0, !.dc = "none"])
                                     ELSE same(<<"426">>, [r EXCEPT !.rest = 0])   \* aborted before it began
               : c \in Verdicts(r)}
    [] OTHER -> {}

\* The backend mutation a pending handler is about to perform (if its guards pass)
ExpMut(r) ==
  LET v == r.h.v IN
  IF v \in MutVerbs /\ r.h.pc = "" /\ "" \in Verdicts(r)
    THEN {[op |-> CASE v = "mkd" -> "mkdir" [] v = "rmd" -> "rmdir" [] v = "dele" -> "unlink" [] OTHER -> "rename",
           p |-> IF v = "rnto" THEN r.rnfr ELSE RPath(r),
           q |-> IF v = "rnto" THEN RPath(r) ELSE NoPath]}
    ELSE {}

MutOkT(t, m) == CASE m.op = "mkdir" -> MkdirOk(t, m.p) [] m.op = "rmdir" -> RmdirOk(t, m.p)
                  [] m.op = "unlink" -> UnlinkOk(t, m.p) [] OTHER -> RenameOk(t, m.p, m.q)
MutDoT(t, m) == CASE m.op = "mkdir" -> MkdirDo(t, m.p) [] m.op = "rmdir" -> RmdirDo(t, m.p)
                  [] m.op = "unlink" -> UnlinkDo(t, m.p) [] OTHER -> RenameDo(t, m.p, m.q)

-----------------------------------------------------------------------------
(* Server-side events *)

\* ABOR cancels every transfer worker; it has no reply of its own, so it is executed
\* implicitly before the first consequence that is observed.
PreAbor(r) ==
  IF r.h.v = "abor" /\ r.logged /\ r.w.v # "" /\ r.w.st \in {"wait", "run"}
    THEN [r EXCEPT !.h = NoH, !.w.st = "cancel"]
    ELSE r

\* A transfer handler whose guards pass leaves a worker behind and queues 150; the worker may
\* produce observable events before the 150 is written.
PreSpawn(r, t) ==
  IF r.h.v \in WorkerVerbs /\ ~r.h.failed /\ r.w.v = "" /\ r.ph = "open" /\ "" \in Verdicts(r) /\ MaySpawn(r)
    THEN Fin([r EXCEPT !.h = NoH, !.w = Spawn(r, t), !.rest = 0, !.dc = "none", !.outq = @ \o <<"150">>])
    ELSE r
Pre(r, t) == PreAbor(PreSpawn(r, t))
\* what the session may look like once handlers that have no reply of their own have (or have not yet) run
Views(r, t) == {r, PreSpawn(r, t), PreAbor(r), Pre(r, t)}

Content(p) == IF IsFileT(tree, p) THEN tree.f[p] ELSE <<>>

\* a running worker may release / finish only when all data has been moved
Moved(r) ==
  CASE r.w.v \in {"stor", "appe"} -> (r.w.mv \/ (r.din = <<>> /\ r.dineof)) /\ (r.w.fopen \/ r.w.fdone)
    [] r.w.v = "retr" -> (r.w.fopen \/ r.w.fdone) /\ r.w.pos >= Len(Content(r.w.p)) /\ (r.w.off = 0 \/ r.w.seeked)
    [] OTHER -> r.w.listed
TimedOut(r, t) == SockT > 0 /\ r.w.st = "run" /\ r.w.dl > 0 /\ t = r.w.dl
WCanFinish(r) == r.w.v # "" /\ r.w.st = "run" /\ ~r.w.sock /\ ~r.w.fopen
                 /\ (r.w.v \in TransferVerbs => r.w.fdone) /\ (r.w.v \in ListVerbs => r.w.listed)
Released(r) == ~r.w.sock /\ ~r.w.fopen

PoolPorts == {e[2] : e \in pool}
NoFree(r) == UsePool /\ (pool = {} \/ \E e \in pool : e[2] \in r.h.viewed)

ReplyWith(s, t, code, r) ==
  /\ r.ph \in {"open", "drain"} /\ At(t)
  /\ \/ \* a queued reply is written
        /\ r.outq # <<>> /\ Head(r.outq) = code
        /\ Upd(s, [r EXCEPT !.outq = Tail(@)]) /\ UNCHANGED <<uused, used, pool>>
     \/ \* a handler without backend mutation runs and its first reply is written
        /\ r.outq = <<>> /\ r.h.v # "" /\ ~r.h.failed
        /\ \E o \in Outcomes(r, t) :
             /\ Head(o.rep) = code
             /\ Upd(s, [o.r EXCEPT !.outq = Tail(o.rep)]) /\ uused' = o.uu /\ used' = o.us
        /\ UNCHANGED pool
     \/ \* a pipelined command that overtook a suspended handler is answered; the suspended handler stays
        /\ r.outq = <<>> /\ r.h2 # NoH
        /\ \E o \in Outcomes([r EXCEPT !.h = r.h2, !.h2 = NoH], t) :
             /\ Head(o.rep) = code
             /\ Upd(s, [o.r EXCEPT !.h = r.h, !.outq = Tail(o.rep)]) /\ uused' = o.uu /\ used' = o.us
        /\ UNCHANGED pool
     \/ \* an ABOR that overtook a running handler is answered
        /\ r.outq = <<>> /\ r.ab = "pend" /\ code = (IF r.logged THEN "226" ELSE "503")
        /\ Upd(s, [r EXCEPT !.ab = IF r.h = NoH THEN "" ELSE "done"]) /\ UNCHANGED <<uused, used, pool>>
     \/ \* passive port pool exhausted
        /\ r.outq = <<>> /\ r.h.v \in {"pasv", "epsv"} /\ r.logged /\ r.lsn = 0 /\ r.h.pc \in {"", "retry"}
        /\ (r.h.v = "epsv" => r.h.x = "") /\ NoFree(r) /\ code = "421"
        /\ Upd(s, [r EXCEPT !.h = NoH, !.ph = "drain"])
        /\ \E pl \in {pool} \cup {(pool \ {e}) \cup {<<e[1] + 1, e[2]>>} : e \in pool} : pool' = pl
        /\ UNCHANGED <<uused, used>>
     \/ \* a handler or worker hit by a backend failure answers 451
        /\ r.outq = <<>> /\ code = "451"
        /\ \/ r.h.failed /\ Upd(s, [r EXCEPT !.h = NoH])
           \/ r.w.st = "failed" /\ Released(r) /\ Upd(s, [r EXCEPT !.w = NoW])
        /\ UNCHANGED <<uused, used, pool>>
     \/ \* transfer completed
        /\ r.outq = <<>> /\ WCanFinish(r) /\ code = DoneCode(r.w.v)
        /\ Upd(s, [r EXCEPT !.w = NoW]) /\ UNCHANGED <<uused, used, pool>>
     \/ \* transfer aborted: 426 then 226 (a single 226 is also accepted when no data connection existed yet)
        /\ r.outq = <<>> /\ r.w.st = "cancel" /\ Released(r)
        /\ \/ code = "426" /\ Upd(s, [r EXCEPT !.w = NoW, !.outq = <<"226">>])
           \/ code = "226" /\ ~r.w.had /\ Upd(s, [r EXCEPT !.w = NoW])
        /\ UNCHANGED <<uused, used, pool>>
     \/ \* no data connection within wait_future_timeout
        /\ r.outq = <<>> /\ r.w.st = "wait" /\ r.w.dl > 0 /\ t = r.w.dl /\ code = "425"
        /\ Upd(s, [r EXCEPT !.w = NoW]) /\ UNCHANGED <<uused, used, pool>>
  /\ UNCHANGED <<tree, table, srv>>

ReplyEv(s, t, code) == \E r \in {ss[s], PreAbor(ss[s])} : ReplyWith(s, t, code, r)

\* what a reply tells the client beyond its code: PWD's directory, MLST's facts
PayloadOk(s, code, pay) ==
  LET r == ss[s] IN
  /\ (pay.hasdir /\ r.h.v = "pwd" /\ code = "257" => pay.dir = r.cwd)
  /\ (pay.hasfacts /\ r.h.v = "mlst" /\ code = "250" /\ r.logged =>
        LET p == RPath(r) IN
        /\ pay.ftype = (IF IsDirT(tree, p) THEN "dir" ELSE "file")
        /\ (IsFileT(tree, p) => pay.fsize = Len(tree.f[p])))

Confined(r, p) == r.user # "" /\ IsPrefix(UCfg[r.user].base, p)
\* a transfer accepted while logged in goes on under the user it was accepted for, even across a re-USER
ConfinedW(w, p) == w.ub # "" /\ IsPrefix(UCfg[w.ub].base, p)

ModeFor(w) == IF w.v = "retr" THEN "rb" ELSE IF w.off > 0 THEN "r+b" ELSE IF w.v = "appe" THEN "ab" ELSE "wb"

\* a handler's backend mutation (mkdir / rmdir / unlink / rename)
FsMut(s, t, op, p, q, res) ==
  LET r == ss[s] IN
  /\ r.ph = "open" /\ r.h.v # "" /\ ~r.h.failed /\ At(t)
  /\ \E m \in ExpMut(r) :
       /\ m.op = op /\ m.p = p /\ (op = "rename" => m.q = q)
       /\ Confined(r, p) /\ (op = "rename" => Confined(r, q))
       /\ LET r1 == IF op = "rename" THEN [r EXCEPT !.rnfr = NoPath] ELSE r IN
          IF res = "fault" THEN Upd(s, [r1 EXCEPT !.h.failed = TRUE]) /\ UNCHANGED tree
          ELSE /\ (res = "ok") = MutOkT(tree, m)
               /\ IF res = "ok"
                    THEN tree' = MutDoT(tree, m) /\ Upd(s, [r1 EXCEPT !.h.pc = "mutdone"])
                    ELSE UNCHANGED tree /\ Upd(s, [r1 EXCEPT !.h.failed = TRUE])
  /\ UNCHANGED <<uused, used, pool, table, srv>>

\* read-only backend calls: allowed only for a logged-in session that has work in progress
FsQuery(s, t, p, res) ==
  LET r0 == ss[s]
      byH(r) == r.h.v # "" /\ r.h.v # "abor" /\ ~r.h.failed
      byW(r) == r.w.v # "" /\ r.w.st = "run" /\ r.w.sock
  IN
  /\ r0.ph = "open" /\ At(t)
  /\ \/ /\ byH(r0)
        /\ \/ r0.logged /\ Confined(r0, p)
           \/ "user-overtakes-command" \in KF /\ r0.h.l0 /\ r0.h.u0 # "" /\ IsPrefix(UCfg[r0.h.u0].base, p)
           \/ "user-overtakes-command" \in KF /\ r0.h.l0 /\ Confined(r0, p)
        /\ IF res # "fault" THEN Upd(s, r0)
           ELSE \E rst \in (IF r0.h.v \in TransferVerbs THEN {r0.rest, 0} ELSE {r0.rest}) :
                  Upd(s, [r0 EXCEPT !.h.failed = TRUE, !.rest = rst])
     \/ \E r1 \in Views(r0, t) : byW(r1) /\ ConfinedW(r1.w, p) /\ Upd(s, IF res = "fault" THEN [r1 EXCEPT !.w.st = "failed"] ELSE r1)
  /\ UNCHANGED <<tree, uused, used, pool, table, srv>>

\* file operations of a transfer worker
FsFile(s, t, op, p, res, mode, off, data) ==
  \E r \in Views(ss[s], t) : LET w == r.w IN
  /\ r.ph \in {"open", "dead"} /\ w.v \in TransferVerbs /\ At(t) /\ p = w.p
  /\ CASE op = "open" ->
            /\ w.st = "run" /\ w.sock /\ ~w.fopen /\ ~w.fdone /\ mode = ModeFor(w) /\ ConfinedW(w, p)
            /\ IF res = "fault" THEN Upd(s, [r EXCEPT !.w.st = "failed"]) /\ UNCHANGED tree
               ELSE /\ (res = "ok") = OpenOk(tree, p, mode)
                    /\ IF res = "ok"
                         THEN /\ tree' = OpenDo(tree, p, mode)
                              /\ Upd(s, [r EXCEPT !.w.fopen = TRUE,
                                                  !.w.pos = IF mode = "ab" THEN Len(Content(p)) ELSE 0])
                         ELSE Upd(s, [r EXCEPT !.w.st = "failed"]) /\ UNCHANGED tree
       [] op = "seek" ->
            /\ w.st = "run" /\ w.fopen /\ w.off > 0 /\ ~w.seeked /\ off = w.off /\ UNCHANGED tree
            /\ IF res = "fault" THEN Upd(s, [r EXCEPT !.w.st = "failed"])
               ELSE Upd(s, [r EXCEPT !.w.seeked = TRUE, !.w.pos = off])
       [] op = "write" ->
            /\ w.st = "run" /\ w.fopen /\ w.v \in {"stor", "appe"} /\ (w.off = 0 \/ w.seeked)
            /\ Len(data) > 0 /\ Len(data) <= Len(r.din) /\ SubSeq(r.din, 1, Len(data)) = data
            /\ IF res = "fault" THEN Upd(s, [r EXCEPT !.w.st = "failed"]) /\ UNCHANGED tree
               ELSE /\ tree' = PutFile(tree, p, Overlay(Content(p), w.pos, data))
                    /\ Upd(s, [r EXCEPT !.w.pos = @ + Len(data), !.din = SubSeq(@, Len(data) + 1, Len(@))])
       [] op = "late" ->     \* a held backend call of the worker fails after all
            /\ w.st = "run" /\ UNCHANGED tree /\ Upd(s, [r EXCEPT !.w.st = "failed"])
       [] op = "read" ->
            /\ w.st = "run" /\ w.fopen /\ w.v = "retr" /\ UNCHANGED tree
            /\ IF res = "fault" THEN Upd(s, [r EXCEPT !.w.st = "failed"]) ELSE Upd(s, r)
       [] op = "close" ->
            /\ w.fopen /\ UNCHANGED tree
            /\ IF w.st = "run" /\ res # "fault" /\ Moved(r)
                 THEN Upd(s, [r EXCEPT !.w.fopen = FALSE, !.w.fdone = TRUE])
               ELSE IF w.st \in {"run", "cancel"} /\ res = "fault"
                 THEN Upd(s, [r EXCEPT !.w.fopen = FALSE, !.w.st = "failed"])
               ELSE IF TimedOut(r, t)
                 THEN Upd(s, [r EXCEPT !.w.fopen = FALSE, !.w.st = "dying", !.crash = TRUE])
               ELSE w.st \in {"cancel", "failed", "dying"} /\ Upd(s, [r EXCEPT !.w.fopen = FALSE])
       [] OTHER -> FALSE
  /\ UNCHANGED <<uused, used, pool, table, srv>>

\* passive listener start-up: take a port, bind, settle
LsnTry(s, t, port) ==
  LET r == ss[s] IN
  /\ r.ph \in {"open", "drain"} /\ r.h.v \in {"pasv", "epsv"} /\ r.logged /\ r.lsn = 0 /\ r.h.pc \in {"", "retry"} /\ At(t)
  /\ (r.h.v = "epsv" => r.h.x = "")
  /\ IF UsePool
       THEN \E e \in pool : /\ e[2] = port /\ port \notin r.h.viewed
                            /\ pool' = pool \ {e}
                            /\ Upd(s, [r EXCEPT !.h.pc = "try", !.h.port = port, !.h.prio = e[1],
                                                !.h.viewed = @ \cup {port}])
       ELSE port = 0 /\ UNCHANGED pool /\ Upd(s, [r EXCEPT !.h.pc = "try"])
  /\ UNCHANGED <<tree, uused, used, table, srv>>

LsnBound(s, t, port) ==
  LET r == ss[s] IN
  /\ r.ph \in {"open", "drain"} /\ r.h.pc = "try" /\ (UsePool => port = r.h.port) /\ At(t)
  /\ Upd(s, [r EXCEPT !.h.pc = "bound", !.h.port = port])
  /\ UNCHANGED <<tree, uused, used, pool, table, srv>>

LsnFail(s, t, port, why) ==
  LET r == ss[s] IN
  /\ r.ph \in {"open", "drain"} /\ r.h.pc = "try" /\ At(t)
  /\ IF UsePool THEN port = r.h.port /\ pool' = pool \cup {<<r.h.prio + 1, port>>} ELSE UNCHANGED pool
  /\ IF why = "inuse" /\ UsePool
       THEN Upd(s, [r EXCEPT !.h.pc = "retry", !.h.port = 0])
       ELSE Upd(s, [r EXCEPT !.h = NoH, !.crash = TRUE])      \* unexpected error: the session ends
  /\ UNCHANGED <<tree, uused, used, table, srv>>

DataOut(s, t, data) ==
  \E r \in Views(ss[s], t) : LET w == r.w IN
  /\ r.ph = "open" /\ w.st = "run" /\ w.sock /\ At(t)
  /\ IF w.v = "retr"
       THEN /\ w.fopen /\ (w.off = 0 \/ w.seeked)
            /\ w.pos + Len(data) <= Len(Content(w.p))
            /\ data = SubSeq(Content(w.p), w.pos + 1, w.pos + Len(data))
            /\ Upd(s, [r EXCEPT !.w.pos = @ + Len(data), !.w.dl = IF SockT > 0 THEN t + SockT ELSE 0])
       ELSE w.v \in ListVerbs /\ Upd(s, [r EXCEPT !.w.dl = IF SockT > 0 THEN t + SockT ELSE 0])
  /\ UNCHANGED <<tree, uused, used, pool, table, srv>>

KindOf(p) == IF IsDirT(tree, p) THEN "dir" ELSE "file"
Entries(p) == {[name |-> q[Len(q)], kind |-> KindOf(q), size |-> IF IsFileT(tree, q) THEN Len(tree.f[q]) ELSE 0]
               : q \in ChildrenT(tree, p)}

\* the complete listing sent on the data connection, parsed by the peer
Listing(s, t, entries) ==
  /\ At(t)
  /\ \E r \in Views(ss[s], t) : LET w == r.w IN
     IF w.v \in ListVerbs /\ w.st = "run" /\ w.sock /\ ~TimedOut(r, t)
       THEN /\ {[name |-> e.name, kind |-> e.kind, size |-> IF e.kind = "file" THEN e.size ELSE 0] : e \in entries}
                 = Entries(w.p)
            /\ Upd(s, [r EXCEPT !.w.listed = TRUE])
       ELSE Upd(s, r)
  /\ UNCHANGED <<tree, uused, used, pool, table, srv>>

TeardownCause(r, t) ==
  \/ r.ceof \/ srv = "closed" \/ r.crash
  \/ r.ph = "drain" /\ r.outq = <<>>
  \/ Idle > 0 /\ r.ph = "open" /\ t = IdleDl(r)
  \/ TimedOut(r, t)

\* the server closes one of the session's data sockets
DataClose(s, t) ==
  /\ At(t)
  /\ \E r \in Views(ss[s], t) : LET w == r.w IN
     \/ r.xd > 0 /\ Upd(s, [r EXCEPT !.xd = @ - 1])
     \/ /\ w.sock
        /\ IF w.st = "run" /\ Moved(r) THEN Upd(s, [r EXCEPT !.w.sock = FALSE])
           ELSE IF TimedOut(r, t) THEN Upd(s, [r EXCEPT !.w.sock = FALSE, !.w.st = "dying", !.crash = TRUE])
           ELSE w.st \in {"cancel", "failed", "dying"} /\ Upd(s, [r EXCEPT !.w.sock = FALSE])
     \/ r.dc = "parked" /\ r.ph \in {"open", "drain"} /\ TeardownCause(r, t) /\ Upd(s, [r EXCEPT !.dc = "none"])
     \/ \* PASV / EPSV with a listener already open drops a parked data connection before answering
        /\ r.dc = "parked" /\ r.ph = "open" /\ r.h.v \in {"pasv", "epsv"} /\ r.logged /\ r.lsn # 0
        /\ (r.h.v = "epsv" => r.h.x = "")
        /\ Upd(s, [r EXCEPT !.dc = "none", !.cdata = FALSE])
  /\ UNCHANGED <<tree, uused, used, pool, table, srv>>

\* the dispatcher's teardown: observed as the server closing the control socket
CtlClose(s, t) ==
  LET r == ss[s]
      keepw == r.w.v # "" /\ (r.w.sock \/ r.w.fopen)
      ports == (IF r.lsn # 0 THEN {r.lsn} ELSE {}) \cup (IF r.h.pc \in {"try", "bound"} THEN {r.h.port} ELSE {})
  IN
  /\ r.ph \in {"open", "drain"} /\ At(t) /\ TeardownCause(r, t)
  /\ Upd(s, [InitSess EXCEPT !.ph = "dead", !.ceof = r.ceof,
                             !.w = IF keepw THEN [r.w EXCEPT !.st = "dying"] ELSE NoW,
                             !.xd = r.xd + (IF r.dc = "parked" THEN 1 ELSE 0)])
  /\ pool' = IF UsePool THEN pool \cup {<<0, p>> : p \in ports} ELSE pool
  /\ used' = IF r.acq THEN used - 1 ELSE used
  /\ uused' = IF r.user # "" THEN [uused EXCEPT ![r.user] = @ - 1] ELSE uused
  /\ table' = table \ {s}
  /\ UNCHANGED <<tree, srv>>

-----------------------------------------------------------------------------
(* Quiescence: what must already have happened when the server has nothing left to do *)

Settled(s, gated) ==
  LET r == PreAbor(ss[s]) IN
  /\ (r.outq = <<>> \/ s \in gated)
  /\ (r.ab # "pend" \/ s \in gated)
  /\ r.xd = 0
  /\ (r.h.v # "" => s \in gated \/ r.h.pc = "try")
  /\ (r.h2 = NoH \/ s \in gated)
  /\ (r.w.v # "" => \/ r.w.st = "wait"
                    \/ r.w.st = "dying" /\ Released(r)
                    \/ r.w.st = "run" /\ ~WCanFinish(r) /\ (s \in gated \/ ~Moved(r) \/ ~Released(r))
                    \/ s \in gated)
  \* an upload that still holds its data connection has taken everything that has arrived: it is waiting for more, not for
  \* anything inside the server (another session's lock, say)
  /\ (r.w.v \in {"stor", "appe"} /\ r.w.st = "run" /\ r.w.sock /\ r.ph = "open" => s \in gated \/ (r.din = <<>> /\ ~r.dineof))
  /\ ~(r.ph = "drain")
  /\ ~(r.ph = "open" /\ (r.ceof \/ r.crash \/ srv = "closed"))
Quiescent(gated) == ~Overdue /\ \A s \in Sessions : Settled(s, gated)

-----------------------------------------------------------------------------
(* Properties of the design (checked by TLC on the MC_* configurations) *)

Holding(s) == (IF ss[s].lsn # 0 THEN {ss[s].lsn} ELSE {})
              \cup (IF ss[s].h.pc \in {"try", "bound"} /\ ss[s].h.port # 0 THEN {ss[s].h.port} ELSE {})

C10_SlotConservation  == used = Cardinality({s \in Sessions : ss[s].acq})
C10_SlotLimit         == SrvMax # 0 => used <= SrvMax
C10_USlotConservation == \A u \in Users : uused[u] = Cardinality({s \in Sessions : ss[s].user = u})
C10_USlotLimit        == \A u \in Users : UCfg[u].max # 0 => uused[u] <= UCfg[u].max
C11_PortConservation  ==
  UsePool => \A p \in Ports : Cardinality({e \in pool : e[2] = p}) + Cardinality({s \in Sessions : p \in Holding(s)}) = 1
C12_EndedHoldsNothing ==
  \A s \in Sessions : ss[s].ph = "dead" =>
     /\ ss[s].lsn = 0 /\ ss[s].dc = "none" /\ ~ss[s].acq /\ ss[s].user = "" /\ s \notin table
     /\ ss[s].h = NoH /\ ss[s].outq = <<>>
C12_TableExact == table = {s \in Sessions : ss[s].ph \in {"open", "drain"}}
C03_LoggedImpliesAuth == \A s \in Sessions : ss[s].logged => ss[s].user # ""
C03_StateNeedsLogin ==
  \* (a listener or a transfer started while logged in may outlive a re-USER; a pending rename may not)
  \A s \in Sessions : ss[s].rnfr # NoPath => ss[s].user # ""
C02_CwdNormal == \A s \in Sessions : \A i \in 1..Len(ss[s].cwd) : ss[s].cwd[i] \notin {"..", ".", ""}
\* action properties
C03_NoServeBeforeLogin ==
  [][\A s \in Sessions :
       /\ (ss'[s].lsn # ss[s].lsn /\ ss'[s].lsn # 0 => ss[s].logged)
       /\ (ss'[s].w.v # "" /\ ss[s].w.v = "" => ss[s].logged)
       /\ (ss'[s].rnfr # NoPath /\ ss'[s].rnfr # ss[s].rnfr => ss[s].logged)
       /\ (ss'[s].cwd # ss[s].cwd /\ ss'[s].user = ss[s].user /\ ss'[s].ph = "open" => ss[s].logged)]_vars
\* the tree changes only through a logged-in session's command or a transfer that was started while logged in
C03_TreeNeedsLogin == [][tree' # tree => \E s \in Sessions : ss[s].logged \/ ss[s].w.v # ""]_vars
C05_RestScoped ==
  [][\A s \in Sessions : ss[s].w.v = "" /\ ss'[s].w.v # "" => ss'[s].rest = 0]_vars
=============================================================================
