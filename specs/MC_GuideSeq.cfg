CONSTANTS
  NS = 1
  Users <- c_Users
  UCfg <- c_UCfg
  SrvMax = 0
  Ports = {}
  UsePool = FALSE
  Idle = 0
  WaitData = 0
  SockT = 0
  V6 = FALSE
  LateDrop = FALSE
  KF = {}
  Cmds <- c_Cmds
  Datas <- c_Datas
  InitTree <- c_Tree
  Block = 2
  Faults = FALSE
  PortFaults = FALSE
  Cuts = FALSE
  MaxNow = 0
  MaxLevel = 40
  Pipe = FALSE
  MaxDin = 3
INIT GInit
NEXT GNext
CHECK_DEADLOCK FALSE
INVARIANT GStop
ALIAS GAlias
