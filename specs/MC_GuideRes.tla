---- MODULE MC_GuideRes ----
EXTENDS MC_Res, Guide
====
