------------------------------- MODULE Names -------------------------------
(***************************************************************************)
(* A name is an opaque token: whatever was created under it is what every  *)
(* later command and reply with that token denotes.  Judge walks over      *)
(* recorded "name tours" (create, enter, PWD, leave, list, stat, upload,   *)
(* download, append, rename there and back, delete) made with the real     *)
(* client against the real server, one per concrete name.                  *)
(***************************************************************************)
EXTENDS Naturals, Sequences, FiniteSets, TLC, Json, IOUtils
VARIABLE i
Cases == JsonDeserialize(IOEnv.CASE_FILE)
Set(q) == {q[k] : k \in 1..Len(q)}
Ok(c) ==
  /\ c.completed                                         \* no step raised
  /\ c.pwd = c.path                                      \* PWD reports exactly the path that was entered
  /\ c.pwd_after_cdup = c.parent
  /\ Cardinality({k \in 1..Len(c.listed) : c.listed[k] = c.name}) = 1      \* listed once, under exactly that name
  /\ c.stat_type = "dir" /\ c.exists
  /\ c.file_stat_type = "file" /\ c.file_stat_size = Len(c.payload) /\ c.file_is_file     \* a stat of the file is about the file
  /\ c.file_listed = <<c.fname>>                         \* the uploaded file is the only entry, under its name
  /\ c.got = c.payload /\ c.got_after_append = c.payload \o c.payload2
  /\ c.renamed_listed = <<c.gname>> /\ c.got_renamed = c.payload \o c.payload2
  /\ c.back_listed = <<c.fname>>
  /\ c.tree_mid = c.expected_mid                         \* backend tree while the objects exist
  /\ c.tree_end = c.tree_start                           \* and everything is gone afterwards
Init == i = 1
Next == i <= Len(Cases) /\ i' = i + 1
Spec == Init /\ [][Next]_i
Judge == i > Len(Cases) \/ Ok(Cases[i]) \/ PrintT(<<"BAD", i>>)
=============================================================================
