CONSTANTS
  NS = 1
  Users <- c_Users
  UCfg <- c_UCfg
  SrvMax = 0
  Ports = {}
  UsePool = FALSE
  Idle = 3
  WaitData = 2
  SockT = 2
  V6 = FALSE
  LateDrop = FALSE
  KF = {}
  Cmds <- c_CmdsT
  Datas <- c_DatasQ
  InitTree <- c_Tree
  Block = 2
  Faults = FALSE
  PortFaults = FALSE
  Cuts = TRUE
  MaxNow = 9
  MaxLevel = 20
  Pipe = TRUE
  MaxDin = 3
INIT MCInit
NEXT MCNext
CONSTRAINT SeqConstraint
INVARIANT C10_SlotConservation
INVARIANT C10_USlotConservation
INVARIANT C12_EndedHoldsNothing
INVARIANT C12_TableExact
INVARIANT C12_DeadHoldsOnlyDying
INVARIANT C03_LoggedImpliesAuth
INVARIANT C03_StateNeedsLogin
INVARIANT C02_CwdNormal
INVARIANT NoStuck
PROPERTY C03_NoServeBeforeLogin
PROPERTY C03_TreeNeedsLogin
PROPERTY C05_RestScoped
CHECK_DEADLOCK FALSE
