------------------------------ MODULE MC_Client ------------------------------
(***************************************************************************)
(* ClientProto against an arbitrary server: any reply code of a small      *)
(* alphabet with any payload class at any time a command is owed (or the   *)
(* greeting), end of file, arbitrary listing lines.  History variable act  *)
(* names the environment step so that simulated behaviours can be replayed *)
(* against the real client (spec -> code).                                 *)
(***************************************************************************)
EXTENDS ClientProto
VARIABLE act
CONSTANTS MaxCalls, MaxLevel

Codes == {120, 150, 200, 220, 226, 227, 229, 230, 250, 257, 331, 332, 333, 350, 426, 500, 510, 550, 551}
Pls   == {"plain", "epsv", "epsvdead", "pasv", "pasvdead", "mlst"}
Lines == {"ok", "hit", "dot", "bad"}
A(raw, off, wait, cmds, depth, parents) == [raw |-> raw, off |-> off, wait |-> wait, cmds |-> cmds, depth |-> depth, parents |-> parents]
CallSet ==
  {<<"login", NoArg>>, <<"pwd", NoArg>>, <<"cwd", NoArg>>, <<"cdup", NoArg>>, <<"rmd", NoArg>>, <<"dele", NoArg>>, <<"rename", NoArg>>,
   <<"quit", NoArg>>, <<"abort", NoArg>>, <<"abort", [NoArg EXCEPT !.wait = FALSE]>>,
   <<"list", NoArg>>, <<"list", [NoArg EXCEPT !.raw = "MLSD"]>>, <<"list", [NoArg EXCEPT !.raw = "LIST"]>>,
   <<"list", [NoArg EXCEPT !.cmds = <<"pasv">>]>>, <<"list", [NoArg EXCEPT !.cmds = <<"pasv", "epsv">>]>>,
   <<"stat", NoArg>>, <<"exists", NoArg>>,
   <<"mkd", [NoArg EXCEPT !.depth = 1]>>, <<"mkd", [NoArg EXCEPT !.depth = 2]>>, <<"mkd", [NoArg EXCEPT !.depth = 2, !.parents = FALSE]>>,
   <<"download", NoArg>>, <<"download", [NoArg EXCEPT !.off = 1]>>, <<"upload", NoArg>>, <<"upload", [NoArg EXCEPT !.off = 1]>>}

VARIABLE calls
mvars == <<c, act, calls>>

MCInit == Init /\ act = <<"init">> /\ calls = 0
ActCall(op, a) == <<"call", op, a.raw, a.off, a.wait, a.cmds, a.depth, a.parents>>
MCConnect == calls = 0 /\ Call("connect", NoArg) /\ calls' = 1 /\ act' = ActCall("connect", NoArg)
MCCall ==
  /\ calls \in 1..(MaxCalls - 1)
  /\ \E x \in CallSet : Call(x[1], x[2]) /\ act' = ActCall(x[1], x[2])
  /\ calls' = calls + 1
\* the server acts only after it has seen what the client did (client events are consumed first): fewer interleavings, same behaviours
MCReply ==
  /\ c.out = <<>>
  /\ c.owed > 0 \/ (calls = 1 /\ c.pc = "CN.w")
  /\ Len(c.rq) < 2
  /\ \E k \in Codes, p \in Pls :
       /\ (p # "plain" => k \in {227, 229, 250})
       /\ Reply(k, p) /\ act' = <<"reply", c.ns, k, p>>
  /\ UNCHANGED calls
MCEof == c.out = <<>> /\ calls > 0 /\ CtlEof /\ act' = <<"eof", c.ns>> /\ UNCHANGED calls
MCData ==
  /\ c.out = <<>> /\ c.sd = "open" /\ Len(c.dq) < 2
  /\ \E k \in Lines : DData(c.did, k) /\ act' = <<"ddata", c.ns, k>>
  /\ UNCHANGED calls
MCDataEof == c.out = <<>> /\ c.sd = "open" /\ DEof(c.did) /\ act' = <<"deof", c.ns>> /\ UNCHANGED calls
MCClientEv == c.out # <<>> /\ ClientEv(Head(c.out)) /\ act' = <<"cev">> /\ UNCHANGED calls
MCNext == MCConnect \/ MCCall \/ MCReply \/ MCEof \/ MCData \/ MCDataEof \/ MCClientEv
MCSpec == MCInit /\ [][MCNext]_mvars
MCConstraint == TLCGet("level") <= MaxLevel /\ c.did <= 4 /\ c.ents <= 2 /\ c.n <= 2
MCView == <<[c EXCEPT !.ns = 0], calls>>
\* generation only: a server that mostly lets the client get on (codes the waiting point accepts or waits through, shapes that
\* parse) and sometimes does not, so that simulated behaviours go deep
GCodes == {k \in Codes : AnyM(AwExp(c) \cup AwWait(c), k)} \cup {226, 500, 550}
GReply ==
  /\ c.out = <<>>
  /\ c.owed > 0 \/ (calls = 1 /\ c.pc = "CN.w")
  /\ Len(c.rq) < 2
  /\ \E k \in GCodes, p \in {"plain", "mlst", "short"} :
       LET q == IF p = "plain" /\ c.pc = "PA1.w" THEN (IF c.arg.cmds[c.try] = "epsv" THEN "epsv" ELSE "pasv")
                ELSE IF p = "short" THEN (IF c.pc = "PA1.w" THEN "pasvdead" ELSE "plain") ELSE p IN
       /\ (q = "mlst" => c.pc = "ST0.w")
       /\ Reply(k, q) /\ act' = <<"reply", c.ns, k, q>>
  /\ UNCHANGED calls
GEof == c.out = <<>> /\ calls > 1 /\ c.pc = "idle" /\ CtlEof /\ act' = <<"eof", c.ns>> /\ UNCHANGED calls
\* generation only: padding lets every simulated behaviour reach the depth at which TLC prints it
MCPad == act' = <<"pad">> /\ UNCHANGED <<c, calls>>
GSpec == MCInit /\ [][MCConnect \/ MCCall \/ GReply \/ GEof \/ MCData \/ MCDataEof \/ MCClientEv \/ MCPad]_mvars
GStop == TLCGet("level") < MaxLevel
GAlias == [act |-> act]
=============================================================================
