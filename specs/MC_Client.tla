------------------------------ MODULE MC_Client ------------------------------
(***************************************************************************)
(* ClientProto against an arbitrary server: any reply code of a small      *)
(* alphabet with any payload class at any time a command is owed (or the   *)
(* greeting), end of file, arbitrary listing lines.  History variable act  *)
(* names the environment step so that simulated behaviours can be replayed *)
(* against the real client (spec -> code).                                 *)
(***************************************************************************)
EXTENDS ClientProto
VARIABLE act
CONSTANTS MaxCalls, MaxLevel

Codes == {120, 150, 200, 220, 226, 227, 229, 230, 250, 257, 331, 332, 333, 350, 426, 500, 550}
Pls   == {"plain", "epsv", "epsvdead", "pasv", "pasvdead", "mlst"}
Lines == {"ok", "hit", "dot", "bad"}
A(raw, off, wait, cmds, depth, parents) == [raw |-> raw, off |-> off, wait |-> wait, cmds |-> cmds, depth |-> depth, parents |-> parents]
CallSet ==
  {<<"login", NoArg>>, <<"pwd", NoArg>>, <<"cwd", NoArg>>, <<"cdup", NoArg>>, <<"rmd", NoArg>>, <<"dele", NoArg>>, <<"rename", NoArg>>,
   <<"quit", NoArg>>, <<"abort", NoArg>>, <<"abort", [NoArg EXCEPT !.wait = FALSE]>>,
   <<"list", NoArg>>, <<"list", [NoArg EXCEPT !.raw = "MLSD"]>>, <<"list", [NoArg EXCEPT !.raw = "LIST"]>>,
   <<"list", [NoArg EXCEPT !.cmds = <<"pasv">>]>>, <<"list", [NoArg EXCEPT !.cmds = <<"pasv", "epsv">>]>>,
   <<"stat", NoArg>>, <<"exists", NoArg>>,
   <<"mkd", [NoArg EXCEPT !.depth = 1]>>, <<"mkd", [NoArg EXCEPT !.depth = 2]>>, <<"mkd", [NoArg EXCEPT !.depth = 2, !.parents = FALSE]>>,
   <<"download", NoArg>>, <<"download", [NoArg EXCEPT !.off = 1]>>, <<"upload", NoArg>>, <<"upload", [NoArg EXCEPT !.off = 1]>>}

VARIABLE calls
mvars == <<c, act, calls>>

MCInit == Init /\ act = <<"init">> /\ calls = 0
MCNext ==
  \/ calls = 0 /\ Call("connect", NoArg) /\ calls' = 1 /\ act' = <<"call", "connect", NoArg>>
  \/ /\ calls \in 1..(MaxCalls - 1)
     /\ \E x \in CallSet : Call(x[1], x[2]) /\ act' = <<"call", x[1], x[2]>>
     /\ calls' = calls + 1
  \/ /\ c.out = <<>>
     /\ c.owed > 0 \/ (calls = 1 /\ c.pc = "CN.w")
     /\ Len(c.rq) < 2
     /\ \E k \in Codes, p \in Pls :
          /\ (p # "plain" => k \in {227, 229, 250})
          /\ Reply(k, p) /\ act' = <<"reply", c.owed, k, p>>
     /\ UNCHANGED calls
  \/ c.out = <<>> /\ calls > 0 /\ CtlEof /\ act' = <<"eof", c.owed>> /\ UNCHANGED calls
  \/ /\ c.out = <<>> /\ c.sd = "open" /\ Len(c.dq) < 2
     /\ \E k \in Lines : DData(c.did, k) /\ act' = <<"ddata", c.owed, k>>
     /\ UNCHANGED calls
  \/ c.out = <<>> /\ c.sd = "open" /\ DEof(c.did) /\ act' = <<"deof", c.owed>> /\ UNCHANGED calls
  \/ c.out # <<>> /\ ClientEv(Head(c.out)) /\ act' = <<"cev">> /\ UNCHANGED calls
MCSpec == MCInit /\ [][MCNext]_mvars
MCConstraint == TLCGet("level") <= MaxLevel /\ c.did <= 4 /\ c.ents <= 2 /\ c.n <= 2
MCView == <<c, calls>>
GStop == TLCGet("level") < MaxLevel
GAlias == [act |-> act]
=============================================================================
