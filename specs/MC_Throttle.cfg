CONSTANTS
  TPB = 2
  Reset = 6
  Chunks = {0, 1, 3, 4}
  Durs = {0, 1, 3}
  Gaps = {0, 1, 5, 7, 13}
  Horizon = 36
INIT MInit
NEXT MNext
CONSTRAINT Bound
INVARIANT RateBound
INVARIANT Typed
INVARIANT NoNeedlessDelay
CHECK_DEADLOCK FALSE
