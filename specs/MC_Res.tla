---- MODULE MC_Res ----
EXTENDS MC_Core
c_Users == {"u1", "u2"}
c_UCfg == [u \in c_Users |-> CASE u = "u1" -> [login |-> "u1", pw |-> "pw", max |-> 1, perms |-> <<>>, home |-> <<>>, base |-> <<>>]
                              [] u = "u2" -> [login |-> "u2", pw |-> "", max |-> 1, perms |-> <<>>, home |-> <<>>, base |-> <<>>]]
NA == [abs |-> FALSE, segs |-> <<>>]
c_Cmds == {[v |-> "user", a |-> NA, x |-> "u1", n |-> 0], [v |-> "user", a |-> NA, x |-> "u2", n |-> 0],
           [v |-> "user", a |-> NA, x |-> "nobody", n |-> 0],
           [v |-> "pass", a |-> NA, x |-> "pw", n |-> 0], [v |-> "pass", a |-> NA, x |-> "bad", n |-> 0],
           [v |-> "pasv", a |-> NA, x |-> "", n |-> 0], [v |-> "quit", a |-> NA, x |-> "", n |-> 0]}
c_CmdsS == {[v |-> "user", a |-> NA, x |-> "u2", n |-> 0], [v |-> "pasv", a |-> NA, x |-> "", n |-> 0],
            [v |-> "quit", a |-> NA, x |-> "", n |-> 0]}
c_Tree == [d |-> {}, f |-> <<>>]
====
