--------------------------- MODULE TraceClientProto ---------------------------
(***************************************************************************)
(* Batch trace validation for the client: every execution of the real      *)
(* aioftp.Client against the scripted ("puppet") server - recorded on the  *)
(* wire, at the instant each side acts - must be a behaviour of            *)
(* ClientProto.  One TLC run validates many traces (tid).                  *)
(***************************************************************************)
EXTENDS ClientProto, Json, IOUtils, TLCExt

VARIABLES tid, l

Traces == JsonDeserialize(IOEnv.TRACE_FILE)

ArgOf(a) == [raw |-> a.raw, off |-> a.off, wait |-> a.wait, cmds |-> a.cmds, depth |-> a.depth, parents |-> a.parents]

Step2(e) ==
  CASE e.ev = "Call"   -> Call(e.op, ArgOf(e.arg))
    [] e.ev = "Reply"  -> Reply(e.code, e.pl)
    [] e.ev = "CtlEof" -> CtlEof
    [] e.ev = "DData"  -> DData(e.id, e.k)
    [] e.ev = "DEof"   -> DEof(e.id)
    [] e.ev = "Send"   -> ClientEv(EvSend(e.v, e.a))
    [] e.ev = "DOpen"  -> ClientEv(EvDOpen(e.id))
    [] e.ev = "DClose" -> ClientEv(EvDClose(e.id))
    [] e.ev = "CClose" -> ClientEv(EvCClose)
    [] e.ev = "Ret"    -> ClientEv(EvRet(e.kind, e.code, e.n))
    [] e.ev = "End"    -> End(e.blocked)
    [] OTHER -> FALSE

TraceInit == tid \in 1..Len(Traces) /\ l = 1 /\ Init /\ TLCSet(tid, 0)
TraceNext == l <= Len(Traces[tid]) /\ Step2(Traces[tid][l]) /\ l' = l + 1 /\ UNCHANGED tid
TraceSpec == TraceInit /\ [][TraceNext]_<<c, tid, l>>
Reached == IF l - 1 > TLCGet(tid) THEN TLCSet(tid, l - 1) ELSE TRUE
Report == \A t \in 1..Len(Traces) : PrintT(<<"RES", t, TLCGet(t), Len(Traces[t])>>)
DiagK == IOEnv.DIAG_K
Diag == l - 1 < atoi(DiagK)
=============================================================================
