CONSTANTS
  NS = 3
  Users <- c_Users
  UCfg <- c_UCfg
  SrvMax = 2
  Ports = {3001}
  UsePool = TRUE
  Idle = 0
  WaitData = 0
  SockT = 0
  V6 = FALSE
  LateDrop = FALSE
  KF = {}
  Cmds <- c_Cmds
  Datas = {}
  InitTree <- c_Tree
  Block = 2
  Faults = FALSE
  PortFaults = TRUE
  Cuts = TRUE
  MaxNow = 0
  MaxLevel = 14
  Pipe = FALSE
  MaxDin = 0
INIT GInit
NEXT GNext
CHECK_DEADLOCK FALSE
INVARIANT GStop
ALIAS GAlias
