------------------------------ MODULE FsModel ------------------------------
(***************************************************************************)
(* The storage backend API as a state machine over FsOps' tree: every      *)
(* operation of AbstractPathIO with its result-or-failure and its effect,  *)
(* including open handles with a position.  JudgeNext replays recorded     *)
(* operation sequences of a real backend (one JSON array per sequence) and *)
(* reports the first operation whose observed outcome differs.             *)
(***************************************************************************)
EXTENDS FsOps, Json, IOUtils

VARIABLES tree, hs, sid, k     \* tree, open handles [id -> [p, mode, pos]], sequence index, position

Seqs == JsonDeserialize(IOEnv.CASE_FILE)
Set(q) == {q[i] : i \in 1..Len(q)}
TreeOf(j) == [d |-> Set(j.d),
              f |-> [p \in {j.f[i].p : i \in 1..Len(j.f)} |-> j.f[CHOOSE i \in 1..Len(j.f) : j.f[i].p = p].c]]

Content(t, p) == IF IsFileT(t, p) THEN t.f[p] ELSE <<>>
MkdirOkX(t, p, parents, existok) ==
  IF ExistsT(t, p) THEN existok /\ IsDirT(t, p)
  ELSE IF parents THEN ~ThroughFile(t, p) ELSE IsDirT(t, Parent(p))
MkdirDoX(t, p, parents) == IF ExistsT(t, p) THEN t ELSE IF parents THEN MkdirDo(t, p) ELSE [t EXCEPT !.d = t.d \cup {p}]
\* open handles follow their file: a rename moves them, an unlink (or a rename over their file) detaches them
\* with a private copy of the content (POSIX inode semantics)
HMove(h, a, b) == [x \in DOMAIN h |->
                     IF h[x].det THEN h[x]
                     ELSE IF IsPrefix(a, h[x].p) THEN [h[x] EXCEPT !.p = Move(a, b, h[x].p)]
                     ELSE IF h[x].p = b /\ a # b THEN [h[x] EXCEPT !.det = TRUE, !.c = Content(tree, b)]
                     ELSE h[x]]
HDetach(h, p) == [x \in DOMAIN h |-> IF ~h[x].det /\ h[x].p = p THEN [h[x] EXCEPT !.det = TRUE, !.c = Content(tree, p)] ELSE h[x]]
HContent(hh) == IF hh.det THEN hh.c ELSE Content(tree, hh.p)
Names(t, p) == {q[Len(q)] : q \in ChildrenT(t, p)}

\* expected outcome of operation o in the current state: [ok, val, tree, hs]
Expect(o) ==
  LET p == o.p
      fail == [ok |-> FALSE, val |-> "", t |-> tree, h |-> hs]
      okv(v, t2, h2) == [ok |-> TRUE, val |-> v, t |-> t2, h |-> h2]
      B(b) == IF b THEN "true" ELSE "false"
  IN
  CASE o.op = "exists"  -> okv(B(ExistsT(tree, p)), tree, hs)
    [] o.op = "is_dir"  -> okv(B(IsDirT(tree, p)), tree, hs)
    [] o.op = "is_file" -> okv(B(IsFileT(tree, p)), tree, hs)
    [] o.op = "mkdir"   -> IF MkdirOkX(tree, p, o.parents, o.existok) THEN okv("", MkdirDoX(tree, p, o.parents), hs) ELSE fail
    [] o.op = "rmdir"   -> IF RmdirOk(tree, p) THEN okv("", RmdirDo(tree, p), hs) ELSE fail
    [] o.op = "unlink"  -> IF UnlinkOk(tree, p) THEN okv("", UnlinkDo(tree, p), HDetach(hs, p)) ELSE fail
    [] o.op = "rename"  -> IF RenameOk(tree, p, o.q) THEN okv("", RenameDo(tree, p, o.q), HMove(hs, p, o.q)) ELSE fail
    [] o.op = "stat"    -> IF ExistsT(tree, p) THEN okv(IF IsDirT(tree, p) THEN "dir" ELSE ToString(Len(tree.f[p])), tree, hs) ELSE fail
    [] o.op = "list"    -> okv(ToString(Cardinality(Names(tree, p))), tree, hs)
    [] o.op = "open"    -> IF OpenOk(tree, p, o.mode)
                             THEN LET t2 == OpenDo(tree, p, o.mode) IN
                                  okv("", t2, [x \in DOMAIN hs \cup {o.h} |->
                                                 IF x = o.h THEN [p |-> p, mode |-> o.mode, det |-> FALSE, c |-> <<>>,
                                                                  pos |-> IF o.mode = "ab" THEN Len(Content(t2, p)) ELSE 0]
                                                 ELSE hs[x]])
                             ELSE fail
    [] o.op = "seek"    -> okv("", tree, [hs EXCEPT ![o.h].pos = o.off])
    [] o.op = "write"   -> LET hh == hs[o.h]
                               cur == HContent(hh)
                               pos == IF hh.mode = "ab" THEN Len(cur) ELSE hh.pos
                               new == Overlay(cur, pos, o.data) IN
                           IF hh.mode = "rb" THEN fail
                           ELSE IF hh.det THEN okv("", tree, [hs EXCEPT ![o.h].pos = pos + Len(o.data), ![o.h].c = new])
                           ELSE okv("", PutFile(tree, hh.p, new), [hs EXCEPT ![o.h].pos = pos + Len(o.data)])
    [] o.op = "read"    -> LET hh == hs[o.h]  c == HContent(hh)
                               e == IF hh.pos + o.n > Len(c) THEN Len(c) ELSE hh.pos + o.n
                               got == IF hh.pos >= Len(c) THEN <<>> ELSE SubSeq(c, hh.pos + 1, e) IN
                           IF hh.mode \in {"wb", "ab"} THEN fail
                           ELSE okv(ToString(got), tree, [hs EXCEPT ![o.h].pos = hh.pos + Len(got)])
    [] o.op = "close"   -> okv("", tree, [x \in DOMAIN hs \ {o.h} |-> hs[x]])
    [] OTHER -> fail

Obs(o) == [ok |-> o.ok, val |-> IF o.op = "read" /\ o.ok THEN ToString(o.got) ELSE o.val]

Init == /\ sid \in 1..Len(Seqs) /\ k = 2 /\ tree = TreeOf(Seqs[sid][1].tree) /\ hs = <<>> /\ TLCSet(sid, 0)
JudgeNext ==
  /\ k <= Len(Seqs[sid])
  /\ LET o == Seqs[sid][k]  e == Expect(o) IN
     /\ e.ok = o.ok /\ (o.ok => e.val = Obs(o).val)
     /\ (o.hastree => TreeOf(o.tree) = e.t)
     /\ tree' = e.t /\ hs' = e.h
  /\ k' = k + 1 /\ UNCHANGED sid
Spec == Init /\ [][JudgeNext]_<<tree, hs, sid, k>>
Reached == IF k - 1 > TLCGet(sid) THEN TLCSet(sid, k - 1) ELSE TRUE
Report == \A t \in 1..Len(Seqs) : PrintT(<<"RES", t, TLCGet(t), Len(Seqs[t])>>)
=============================================================================
