CONSTANTS
  NS = 2
  Users <- c_Users
  UCfg <- c_UCfg
  SrvMax = 0
  Ports = {}
  UsePool = FALSE
  Idle = 0
  WaitData = 0
  SockT = 0
  V6 = FALSE
  LateDrop = FALSE
  KF = {}
  Cmds <- c_Cmds
  Datas <- c_Datas
  InitTree <- c_Tree
  Block = 2
  Faults = FALSE
  PortFaults = FALSE
  Cuts = FALSE
  MaxNow = 0
  MaxLevel = 24
  Pipe = FALSE
  MaxDin = 3
INIT MCInit
NEXT MCNext
CONSTRAINT IsoConstraint
INVARIANT C10_SlotConservation
INVARIANT C10_USlotConservation
INVARIANT C12_EndedHoldsNothing
INVARIANT C12_TableExact
INVARIANT C12_DeadHoldsOnlyDying
INVARIANT C03_LoggedImpliesAuth
INVARIANT C03_StateNeedsLogin
INVARIANT C02_CwdNormal
PROPERTY C03_NoServeBeforeLogin
PROPERTY C03_TreeNeedsLogin
PROPERTY C05_RestScoped
PROPERTY C17_NoInterference
PROPERTY C17_OwnSubtreeOnly
CHECK_DEADLOCK FALSE
