------------------------------ MODULE Framing ------------------------------
(***************************************************************************)
(* Control-channel framing.  A text line is a sequence of one-character    *)
(* strings.  Encode is what the server must put on the wire for a reply    *)
(* (plain multi-line and listing-style); Decode is what the client must    *)
(* make of a stream of wire lines (RFC 959 continuation rule, mismatching  *)
(* continuation code = error, resynchronisation on the next line);         *)
(* Matches is the code-mask rule; ParseCmd the server's command split.     *)
(* Judge walks over recorded runs of the real encoder / decoder / matcher. *)
(***************************************************************************)
EXTENDS Naturals, Sequences, FiniteSets, TLC, Json, IOUtils

VARIABLE i
Cases == JsonDeserialize(IOEnv.CASE_FILE)

AsciiDigits == {"0", "1", "2", "3", "4", "5", "6", "7", "8", "9"}
OtherDigits == {"٣", "²", "５"}           \* digits for str.isdigit() that are not ASCII
Digits == AsciiDigits \cup OtherDigits
Take(q, n) == SubSeq(q, 1, IF Len(q) < n THEN Len(q) ELSE n)
Drop(q, n) == IF Len(q) <= n THEN <<>> ELSE SubSeq(q, n + 1, Len(q))
IsCode(c) == Len(c) = 3 /\ \A k \in 1..3 : c[k] \in Digits
StartsDash(q) == Len(q) > 0 /\ q[1] = "-"

\* the client right-strips every received line (trailing blanks are outside the family of reply texts)
Blank == {" ", "\t"}
RECURSIVE RStrip(_)
RStrip(q) == IF q # <<>> /\ q[Len(q)] \in Blank THEN RStrip(SubSeq(q, 1, Len(q) - 1)) ELSE q

\* ---- encoder ----------------------------------------------------------------
Enc(r) ==
  LET n == Len(r.lines) IN
  IF r.list
    THEN [k \in 1..n |-> IF k = 1 THEN r.code \o <<"-">> \o r.lines[1]
                         ELSE IF k = n THEN r.code \o <<" ">> \o r.lines[n]
                         ELSE <<" ">> \o r.lines[k]]
    ELSE [k \in 1..n |-> IF k = n THEN r.code \o <<" ">> \o r.lines[n] ELSE r.code \o <<"-">> \o r.lines[k]]
RECURSIVE EncAll(_)
EncAll(rs) == IF rs = <<>> THEN <<>> ELSE Enc(Head(rs)) \o EncAll(Tail(rs))

\* ---- decoder ------------------------------------------------------------------
\* result of decoding one reply starting at wire line p: [ok, code, info, next]
RECURSIVE Cont(_, _, _, _)
Cont(w, q, code, info) ==
  IF q > Len(w) THEN [ok |-> FALSE, code |-> code, info |-> info, next |-> q, eof |-> TRUE]
  ELSE LET L == w[q]  c == Take(L, 3)  rest == Drop(L, 3) IN
       IF IsCode(c)
         THEN IF c # code THEN [ok |-> FALSE, code |-> code, info |-> Append(info, rest), next |-> q + 1, eof |-> FALSE]
              ELSE IF StartsDash(rest) THEN Cont(w, q + 1, code, Append(info, rest))
              ELSE [ok |-> TRUE, code |-> code, info |-> Append(info, rest), next |-> q + 1, eof |-> FALSE]
         ELSE Cont(w, q + 1, code, Append(info, L))
Dec(w, p) ==
  LET L == w[p]  code == Take(L, 3)  rest == Drop(L, 3) IN
  IF StartsDash(rest) \/ ~IsCode(code) THEN Cont(w, p + 1, code, <<rest>>)
  ELSE [ok |-> TRUE, code |-> code, info |-> <<rest>>, next |-> p + 1, eof |-> FALSE]
RECURSIVE DecAll(_, _)
DecAll(w, p) ==
  IF p > Len(w) THEN <<>>
  ELSE LET d == Dec(w, p) IN
       IF d.eof THEN <<>>                                   \* an unfinished reply: the client keeps waiting
       ELSE <<[ok |-> d.ok, code |-> d.code, info |-> d.info]>> \o DecAll(w, d.next)
Decoded(wire) == DecAll([k \in 1..Len(wire) |-> RStrip(wire[k])], 1)

\* what a faithful round trip returns for reply r: every line with its one framing character in front
Framed(r) ==
  LET n == Len(r.lines) IN
  [ok |-> TRUE, code |-> r.code,
   info |-> [k \in 1..n |-> RStrip((IF k = n \/ (r.list /\ k > 1) THEN <<" ">> ELSE <<"-">>) \o r.lines[k])]]
RoundTrip(rs) == Decoded(EncAll(rs)) = [k \in 1..Len(rs) |-> Framed(rs[k])]
\* the same for whatever bytes a server really wrote: decoding them (by this specification's decoder) yields the
\* original code and texts - each decoded line is one framing character followed by the (right-stripped) text
Text(q) == IF q = <<>> THEN <<>> ELSE Tail(q)
WireFaithful(rs, wire) ==
  LET d == Decoded(wire) IN
  /\ Len(d) = Len(rs)
  /\ \A k \in 1..Len(rs) :
        /\ d[k].ok /\ d[k].code = rs[k].code /\ Len(d[k].info) = Len(rs[k].lines)
        /\ \A j \in 1..Len(rs[k].lines) : Text(d[k].info[j]) = RStrip(rs[k].lines[j])

\* ---- masks ----------------------------------------------------------------------
Min(a, b) == IF a < b THEN a ELSE b
Matches(code, mask) == \A k \in 1..Min(Len(code), Len(mask)) : mask[k] \in Digits => mask[k] = code[k]

\* ---- command line -----------------------------------------------------------------
Upper == <<"A", "B", "C", "D", "E", "F", "G", "H", "I", "J", "K", "L", "M", "N", "O", "P", "Q", "R", "S", "T", "U", "V", "W", "X", "Y", "Z">>
Lower == <<"a", "b", "c", "d", "e", "f", "g", "h", "i", "j", "k", "l", "m", "n", "o", "p", "q", "r", "s", "t", "u", "v", "w", "x", "y", "z">>
Lo(ch) == IF \E k \in 1..26 : Upper[k] = ch THEN Lower[CHOOSE k \in 1..26 : Upper[k] = ch] ELSE ch
FirstSpace(q) == IF \E k \in 1..Len(q) : q[k] = " " THEN CHOOSE k \in 1..Len(q) : q[k] = " " /\ \A j \in 1..(k - 1) : q[j] # " " ELSE 0
ParseCmd(line) ==
  LET s == RStrip(line)  k == FirstSpace(s) IN
  IF k = 0 THEN [verb |-> [j \in 1..Len(s) |-> Lo(s[j])], arg |-> <<>>]
  ELSE [verb |-> [j \in 1..(k - 1) |-> Lo(s[j])], arg |-> Drop(s, k)]

\* ---- judgement ----------------------------------------------------------------------
Ok(c) ==
  CASE c.kind = "reply" ->
         /\ WireFaithful(c.replies, c.wire)                    \* what the server wrote is a faithful encoding (not necessarily Enc)
         /\ c.decoded = Decoded(c.wire)                       \* the client decoded it as specified, whatever the segmentation
         /\ RoundTrip(c.replies)                               \* and that is the round trip
    [] c.kind = "wire" -> c.decoded = Decoded(c.wire)        \* hand-made streams (mismatching continuation codes)
    [] c.kind = "mask" -> c.result = Matches(c.code, c.mask)
    [] c.kind = "cmd"  -> c.verb = ParseCmd(c.line).verb /\ c.arg = ParseCmd(c.line).arg
    [] OTHER -> FALSE

Init == i = 1
Next == i <= Len(Cases) /\ i' = i + 1
Spec == Init /\ [][Next]_i
Judge == i > Len(Cases) \/ Ok(Cases[i]) \/ PrintT(<<"BAD", i>>)
=============================================================================
