SPECIFICATION GSpec
CONSTANTS
  MaxCalls = 4
  MaxLevel = 45
INVARIANT GStop
ALIAS GAlias
CHECK_DEADLOCK FALSE
