CONSTANTS
  NS = 2
  Users <- c_Users
  UCfg <- c_UCfg
  SrvMax = 2
  Ports = {3001, 3002}
  UsePool = TRUE
  Idle = 0
  WaitData = 0
  SockT = 0
  V6 = FALSE
  LateDrop = FALSE
  KF = {}
  Cmds <- c_CmdsS
  Datas = {}
  InitTree <- c_Tree
  Block = 2
  Faults = FALSE
  PortFaults = TRUE
  Cuts = TRUE
  MaxNow = 0
  MaxLevel = 999
  Pipe = FALSE
  MaxDin = 0
INIT MCInit
NEXT MCNext
CONSTRAINT MCConstraint
INVARIANT C10_SlotConservation
INVARIANT C10_SlotLimit
INVARIANT C10_USlotConservation
INVARIANT C10_USlotLimit
INVARIANT C11_PortConservation
INVARIANT C12_EndedHoldsNothing
INVARIANT C12_TableExact
INVARIANT C12_PoolFullWhenGone
INVARIANT C12_DeadHoldsOnlyDying
INVARIANT C10_AllReturnedWhenGone
INVARIANT C03_LoggedImpliesAuth
INVARIANT C03_StateNeedsLogin
INVARIANT NoStuck
CHECK_DEADLOCK FALSE
