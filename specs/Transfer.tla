------------------------------ MODULE Transfer ------------------------------
(***************************************************************************)
(* End-to-end meaning of a transfer: what must be in the file after an     *)
(* upload (STOR, APPE, either with a restart offset) and what a download   *)
(* from an offset must deliver.  Judge walks over recorded transfers made  *)
(* by the real client against the real server and reports each one whose   *)
(* stored / delivered bytes, later visibility or reported size differ.     *)
(***************************************************************************)
EXTENDS FsOps, Json, IOUtils

VARIABLE i
Cases == JsonDeserialize(IOEnv.CASE_FILE)

ExpectedStore(kind, E, R, P) ==
  IF R > 0 THEN Overlay(E, R, P)            \* restart: existing bytes kept outside the written range, zero fill beyond the end
  ELSE IF kind = "appe" THEN E \o P
  ELSE P
ExpectedRetr(E, R) == IF R >= Len(E) THEN <<>> ELSE SubSeq(E, R + 1, Len(E))

StoreOk(c) ==
  IF c.R > 0 /\ ~c.existed
    THEN ~c.ok /\ ~c.exists_after                       \* nothing to restart: refused, nothing created
    ELSE /\ c.ok
         /\ c.exists_after /\ c.file = ExpectedStore(c.kind, c.E, c.R, c.P)
         /\ c.later = c.file                            \* another session's download after the 226
         /\ c.size = Len(c.file) /\ c.listsize = Len(c.file)  \* stat and listing after the 226
RetrOk(c) == c.ok /\ c.got = ExpectedRetr(c.E, c.R)
Ok(c) == IF c.kind = "retr" THEN RetrOk(c) ELSE StoreOk(c)

\* sanity of the definitions on every recorded input
DefOk(c) == /\ Len(ExpectedRetr(c.E, c.R)) + (IF c.R < Len(c.E) THEN c.R ELSE Len(c.E)) = Len(c.E)
            /\ (c.kind # "retr" => Len(ExpectedStore(c.kind, c.E, c.R, c.P)) >= Len(c.P))

Init == i = 1
Next == i <= Len(Cases) /\ i' = i + 1
Spec == Init /\ [][Next]_i
Judge == i > Len(Cases) \/
         /\ (Ok(Cases[i]) \/ PrintT(<<"BAD", i>>))
         /\ (DefOk(Cases[i]) \/ PrintT(<<"BADDEF", i>>))
=============================================================================
