---- MODULE MC_Seq ----
(* one session, the whole verb set, a small tree, backend faults and ABOR *)
EXTENDS MC_Core
c_Users == {"u1", "u2", "anon"}
c_UCfg == [u \in c_Users |->
  CASE u = "u1" -> [login |-> "u1", pw |-> "pw", max |-> 0, perms |-> <<>>, home |-> <<>>, base |-> <<"A">>]
    [] u = "u2" -> [login |-> "u2", pw |-> "", max |-> 0,
                    perms |-> <<[p |-> <<>>, r |-> TRUE, w |-> FALSE], [p |-> <<"d">>, r |-> TRUE, w |-> TRUE]>>,
                    home |-> <<"d">>, base |-> <<"A">>]
    [] OTHER -> [login |-> "", pw |-> "", max |-> 0, perms |-> <<[p |-> <<>>, r |-> FALSE, w |-> FALSE]>>, home |-> <<>>, base |-> <<"A">>]]
NA == [abs |-> FALSE, segs |-> <<>>]
P(abs, segs) == [abs |-> abs, segs |-> segs]
C(v, a, x, n) == [v |-> v, a |-> a, x |-> x, n |-> n]
Args == {P(FALSE, <<"f">>), P(FALSE, <<"d">>), P(TRUE, <<"d", "g">>), P(FALSE, <<"x">>), P(FALSE, <<"..">>), P(FALSE, <<"d", "..", "f">>)}
c_Cmds ==
  {C("user", NA, "u1", 0), C("user", NA, "u2", 0), C("user", NA, "zz", 0), C("pass", NA, "pw", 0), C("pass", NA, "no", 0),
   C("quit", NA, "", 0), C("pwd", NA, "", 0), C("cdup", NA, "", 0), C("syst", NA, "", 0), C("foo", NA, "", 0),
   C("type", NA, "I", 0), C("type", NA, "X", 0), C("prot", NA, "P", 0), C("pbsz", NA, "", 0), C("epsv", NA, "1", 0),
   C("pasv", NA, "", 0), C("epsv", NA, "", 0), C("abor", NA, "", 0),
   C("rest", NA, "dec", 1), C("rest", NA, "bad", 0), C("rest", NA, "udec", 2), C("rest", NA, "nondec", 0)}
  \cup {C(v, a, "", 0) : v \in {"cwd", "mkd", "rmd", "dele", "rnfr", "rnto", "mlst", "mlsd", "list", "retr", "stor", "appe"}, a \in Args}
c_CmdsS ==
  {C("user", NA, "u1", 0), C("user", NA, "u2", 0), C("pass", NA, "pw", 0), C("quit", NA, "", 0), C("pwd", NA, "", 0),
   C("pasv", NA, "", 0), C("abor", NA, "", 0), C("rest", NA, "dec", 1), C("foo", NA, "", 0)}
  \cup {C(v, a, "", 0) : v \in {"cwd", "mkd", "rmd", "dele", "rnfr", "rnto", "mlst", "list", "retr", "stor"},
                          a \in {P(FALSE, <<"f">>), P(FALSE, <<"d">>), P(FALSE, <<"x">>)}}
c_CmdsQ ==
  {C("user", NA, "u1", 0), C("user", NA, "u2", 0), C("pass", NA, "pw", 0), C("quit", NA, "", 0), C("pasv", NA, "", 0),
   C("abor", NA, "", 0), C("rest", NA, "dec", 1), C("foo", NA, "", 0),
   C("cwd", P(FALSE, <<"d">>), "", 0), C("mkd", P(FALSE, <<"x">>), "", 0), C("rnfr", P(FALSE, <<"f">>), "", 0),
   C("rnto", P(FALSE, <<"x">>), "", 0), C("dele", P(FALSE, <<"f">>), "", 0), C("retr", P(FALSE, <<"f">>), "", 0),
   C("stor", P(FALSE, <<"x">>), "", 0), C("list", P(FALSE, <<"d">>), "", 0)}
c_CmdsF ==
  {C("user", NA, "u2", 0), C("quit", NA, "", 0), C("pasv", NA, "", 0), C("abor", NA, "", 0), C("pwd", NA, "", 0),
   C("mkd", P(FALSE, <<"x">>), "", 0), C("rnfr", P(FALSE, <<"g">>), "", 0), C("rnto", P(FALSE, <<"x">>), "", 0),
   C("retr", P(FALSE, <<"g">>), "", 0), C("stor", P(FALSE, <<"x">>), "", 0), C("list", P(FALSE, <<>>), "", 0)}
c_CmdsT ==
  {C("user", NA, "u2", 0), C("quit", NA, "", 0), C("pasv", NA, "", 0), C("pwd", NA, "", 0),
   C("retr", P(FALSE, <<"g">>), "", 0), C("stor", P(FALSE, <<"x">>), "", 0)}
c_Tree == [d |-> {<<"A">>, <<"A", "d">>}, f |-> (<<"A", "f">> :> <<1, 2, 3>> @@ <<"A", "d", "g">> :> <<4>>)]
c_Datas == {<<7>>, <<8, 9>>}
c_DatasQ == {<<7, 8, 9>>}
\* bound the growth of the tree and of file contents
SeqConstraint == /\ MCConstraint
                 /\ Cardinality(NodesT(tree)) <= 5
                 /\ \A p \in DOMAIN tree.f : Len(tree.f[p]) <= 5
====
