------------------------------ MODULE MC_Core ------------------------------
(***************************************************************************)
(* FtpCore driven by a nondeterministic environment: the design-level      *)
(* model that TLC checks exhaustively on small constants.  Every server    *)
(* event of FtpCore is enabled with the arguments the model itself         *)
(* computes; the environment sends commands one at a time (plus ABOR),     *)
(* opens/feeds/closes data connections, vanishes, and closes the server;   *)
(* backend faults and listener start-up faults strike at any step.         *)
(***************************************************************************)
EXTENDS FtpCore

CONSTANTS
  Cmds,       \* set of [v, a, x, n] commands the clients may send
  Datas,      \* set of byte sequences a client may send on a data connection
  InitTree,
  Block,      \* block size
  Faults,     \* BOOLEAN: backend calls may fail
  PortFaults, \* BOOLEAN: listener start-up may fail
  Cuts,       \* BOOLEAN: peers may vanish, the server may be closed
  MaxNow, MaxDin,
  Pipe,       \* BOOLEAN: clients may pipeline CWD/CDUP/PWD/TYPE/SYST behind a command that has not been answered yet
  MaxLevel   \* bound on the depth of the search (quick configurations)

MCInit == Init /\ tree = InitTree

Codes == {"220", "421", "230", "331", "530", "503", "221", "350", "501", "215", "502", "257", "200", "522",
          "227", "229", "226", "426", "425", "451", "550", "250", "150"}
EphPort == 40001

CanSend(s, c) ==
  /\ ss[s].ph = "open" /\ ss[s].outq = <<>> /\ ~ss[s].ceof
  /\ \/ ss[s].h = NoH /\ ss[s].h2 = NoH /\ (ss[s].w.v = "" \/ c.v \notin WorkerVerbs)
     \/ c.v = "abor" /\ ss[s].h # NoH
     \/ \* pipelined: handled while the previous command's handler has not answered yet
        Pipe /\ c.v \in OvertakingVerbs /\ ss[s].h.v \in OvertakenVerbs /\ ss[s].h2 = NoH /\ ss[s].ab = ""
     \/ Pipe /\ c.v = "user" /\ ss[s].h.v = "pass" /\ ss[s].h2 = NoH /\ ss[s].ab = ""
     \/ Pipe /\ c.v = "user" /\ ss[s].h.v \in OvertakenVerbs /\ ss[s].h2 = NoH /\ ss[s].ab = ""
     \/ Pipe /\ c.v \in {"user", "pass", "pwd", "type", "syst"} /\ ss[s].h.v = "user" /\ ss[s].h2 = NoH /\ ss[s].ab = ""
     \/ Pipe /\ c.v \in {"pasv", "epsv"} /\ ss[s].h.v \in {"pasv", "epsv"} /\ ss[s].h2 = NoH /\ ss[s].ab = ""

Take(q, n) == SubSeq(q, 1, IF Len(q) < n THEN Len(q) ELSE n)

WorkerStep(s) ==
  \E r \in Views(ss[s], now) : r.w.v # "" /\
    \/ /\ r.w.v \in TransferVerbs
       /\ \/ \E res \in {IF OpenOk(tree, r.w.p, ModeFor(r.w)) THEN "ok" ELSE "err"} \cup (IF Faults THEN {"fault"} ELSE {}) :
               FsFile(s, now, "open", r.w.p, res, ModeFor(r.w), 0, <<>>)
          \/ \E res \in {"ok"} \cup (IF Faults THEN {"fault"} ELSE {}) :
               \/ FsFile(s, now, "seek", r.w.p, res, "", r.w.off, <<>>)
               \/ r.din # <<>> /\ FsFile(s, now, "write", r.w.p, res, "", 0, Take(r.din, Block))
               \/ FsFile(s, now, "close", r.w.p, res, "", 0, <<>>)
          \/ Faults /\ FsFile(s, now, "read", r.w.p, "fault", "", 0, <<>>)
    \/ /\ r.w.v = "retr" /\ r.w.fopen /\ r.w.pos < Len(Content(r.w.p))
       /\ DataOut(s, now, Take(SubSeq(Content(r.w.p), r.w.pos + 1, Len(Content(r.w.p))), Block))
    \/ r.w.v \in ListVerbs /\ ~r.w.listed /\ Listing(s, now, Entries(r.w.p))
    \/ Faults /\ r.w.v \in ListVerbs /\ ss[s].user # "" /\ FsQuery(s, now, UCfg[ss[s].user].base, "fault")

ServerStep(s) ==
  \/ \E code \in Codes : ReplyEv(s, now, code)
  \/ \E m \in ExpMut(ss[s]) :
       \E res \in {IF MutOkT(tree, m) THEN "ok" ELSE "err"} \cup (IF Faults THEN {"fault"} ELSE {}) :
         FsMut(s, now, m.op, m.p, m.q, res)
  \/ Faults /\ ss[s].user # "" /\ ss[s].h.v \in PathVerbs /\ FsQuery(s, now, UCfg[ss[s].user].base, "fault")
  \/ WorkerStep(s)
  \/ \E p \in (IF UsePool THEN Ports ELSE {0}) : LsnTry(s, now, p)
  \/ \E p \in (IF UsePool THEN Ports ELSE {EphPort + s}) : LsnBound(s, now, p)
  \/ PortFaults /\ \E p \in (IF UsePool THEN Ports ELSE {0}), why \in {"inuse", "err"} : LsnFail(s, now, p, why)
  \/ DataClose(s, now)
  \/ CtlClose(s, now)

EnvStep(s) ==
  \/ ss[s].ph = "idle" /\ Connect(s, now)
  \/ \E c \in Cmds : CanSend(s, c) /\ SendLine(s, now, c.v, c.a, c.x, c.n)
  \/ ~ss[s].cdata /\ ss[s].xd = 0 /\ DataConnect(s, now)
  \/ \E d \in Datas : Len(ss[s].din) + Len(d) <= MaxDin /\ DataSend(s, now, d)
  \/ DataEof(s, now)
  \/ Cuts /\ Vanish(s, now)

MCNext ==
  \/ \E s \in Sessions : EnvStep(s) \/ ServerStep(s)
  \/ Cuts /\ ServerClose(now)
  \/ \E d \in Deadlines : d > now /\ d <= MaxNow /\ Tick(d)

\* bound on what only grows: retry priorities of busy ports
MCConstraint == (\A e \in pool : e[1] <= 1) /\ TLCGet("level") <= MaxLevel

\* The model never demands the impossible: whenever the server still owes something (a reply, a release, a
\* teardown, a timer action), some server step - or the passage of time to the next deadline - is enabled.
NoStuck == \/ Quiescent({})
           \/ \E s \in Sessions : ENABLED ServerStep(s)
           \/ \E d \in Deadlines : d > now

MCSpec == MCInit /\ [][MCNext]_vars

\* the server can always get to a state where it has nothing left to do (no stuck obligation)
ServerFair == \A s \in Sessions : WF_vars(ServerStep(s))
MCLive == MCSpec /\ ServerFair
AllGone == \A s \in Sessions : ss[s].ph \in {"idle", "dead"} /\ ss[s].w.v = "" /\ ss[s].xd = 0
C12_CloseLeavesNothing == (srv = "closed") ~> AllGone
C12_PoolFullWhenGone == AllGone => (UsePool => PoolPorts = Ports /\ Cardinality(pool) = Cardinality(Ports))
C10_AllReturnedWhenGone == AllGone => used = 0 /\ \A u \in Users : uused[u] = 0
\* a dead session's leftovers (a dying worker, a refused extra data socket) vanish without further input
C12_DeadHoldsOnlyDying == \A s \in Sessions : ss[s].ph = "dead" => ss[s].w.st \in {"", "dying"}
=============================================================================
