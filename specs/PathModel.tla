----------------------------- MODULE PathModel -----------------------------
(***************************************************************************)
(* Path resolution of the server as a function: a client-supplied path     *)
(* argument, the session's working directory and the user's base           *)
(* directory determine the virtual path and the real location.             *)
(*                                                                         *)
(* A path segment is a sequence of *atoms* (strings free of '/' and '\'):  *)
(* the POSIX virtual side sees one segment, a Windows real side sees one   *)
(* component per atom.  <<"..">>, <<".">>, <<"">> are the special          *)
(* segments.                                                               *)
(*                                                                         *)
(* TraceNext walks over recorded (input, output) pairs of the real         *)
(* Server.get_paths and reports every pair that violates the property.     *)
(***************************************************************************)
EXTENDS Naturals, Sequences, FiniteSets, TLC, Json, IOUtils

VARIABLE i
Cases == JsonDeserialize(IOEnv.CASE_FILE)

Up == <<"..">>
Special == {<<".">>, <<"">>, <<>>}

RECURSIVE Fold(_, _)
Fold(acc, segs) ==
  IF segs = <<>> THEN acc
  ELSE LET x == Head(segs) IN
       Fold(IF x = Up THEN (IF acc = <<>> THEN <<>> ELSE SubSeq(acc, 1, Len(acc) - 1))
            ELSE IF x \in Special THEN acc ELSE Append(acc, x), Tail(segs))
Resolve(cwd, abs, segs) == Fold(IF abs THEN <<>> ELSE cwd, segs)

RECURSIVE Flat(_)
Flat(segs) == IF segs = <<>> THEN <<>> ELSE Head(segs) \o Flat(Tail(segs))
Clean(atoms) == SelectSeq(atoms, LAMBDA a : a \notin {"", "."})

IsPrefix(p, q) == Len(p) <= Len(q) /\ SubSeq(q, 1, Len(p)) = p
Range(q) == {q[k] : k \in 1..Len(q)}

\* properties of one (input, output) pair --------------------------------------
NormalForm(v) == \A k \in 1..Len(v) : v[k] # Up /\ v[k] \notin Special
Confined(c) == ~c.escaped /\ ".." \notin Range(c.rel)
\* POSIX flavour: the answer is exactly the fold, and the real location is base/virtual
OkPosix(c) == LET v == Resolve(c.cwd, c.abs, c.segs) IN
              /\ c.virt = v /\ NormalForm(c.virt) /\ Confined(c)
              /\ c.relatoms = v
\* Windows flavour: every backslash is a separator on the real side; the pair must stay consistent,
\* or the request is sent back to the root
OkWin(c) == LET v == Resolve(c.cwd, c.abs, c.segs) IN
            /\ Confined(c)
            /\ \/ c.virt = v /\ c.rel = Clean(Flat(v))
               \/ c.virt = <<>> /\ c.rel = <<>>
Ok(c) == IF c.flavour = "posix" THEN OkPosix(c) ELSE OkWin(c)

\* structural properties of the definition itself (checked on every recorded input) -------------
UpStopsAtRoot(c) == Resolve(<<>>, TRUE, <<Up>> \o c.segs) = Resolve(<<>>, TRUE, c.segs)
Idempotent(c) == LET v == Resolve(c.cwd, c.abs, c.segs) IN Resolve(<<>>, TRUE, v) = v /\ NormalForm(v)
DefOk(c) == UpStopsAtRoot(c) /\ Idempotent(c)

Init == i = 1
Next == i <= Len(Cases) /\ i' = i + 1
Spec == Init /\ [][Next]_i
Judge == i > Len(Cases) \/
         /\ (Ok(Cases[i]) \/ PrintT(<<"BAD", i>>))
         /\ (DefOk(Cases[i]) \/ PrintT(<<"BADDEF", i>>))
=============================================================================
