------------------------------ MODULE LoginLog ------------------------------
(***************************************************************************)
(* What may appear in the log records of client and server during login.  *)
(* A record is a sequence of tokens: ordinary text chunks, the token       *)
(* "<PW>" wherever the concrete password string occurred, "<STARS:n>" for  *)
(* a run of n asterisks.  Judge walks over recorded login sessions.        *)
(***************************************************************************)
EXTENDS Naturals, Sequences, FiniteSets, TLC, Json, IOUtils
VARIABLE i
Cases == JsonDeserialize(IOEnv.CASE_FILE)
Range(q) == {q[k] : k \in 1..Len(q)}
\* the password never appears in any record of any logger ...
NoSecretInLog(c) == \A k \in 1..Len(c.records) : "<PW>" \notin Range(c.records[k].toks)
\* ... at most its length is revealed, as a run of stars standing where the password stood
StarsOnlyLength(c) == \A k \in 1..Len(c.records) : \A j \in 1..Len(c.records[k].stars) :
                        c.records[k].stars[j] = c.pwlen \/ c.records[k].stars[j] = c.sentlen
\* non-interference: the same session with another password of the same length logs exactly the same text
NonInterference(c) == c.msgs = c.twin_msgs
\* the session really was a login attempt with the expected outcome (guards against vacuous runs)
Exercised(c) == c.outcome \in {"accepted", "rejected", "out-of-sequence", "after-login", "over-limit", "abandoned", "unsendable", "scripted", "overlong", "cut"} /\ c.observed = c.outcome
\* (StarsOnlyLength is what aioftp does today; revealing less than the length is just as good, so it is not demanded)
Ok(c) == NoSecretInLog(c) /\ NonInterference(c) /\ Exercised(c)
Init == i = 1
Next == i <= Len(Cases) /\ i' = i + 1
Spec == Init /\ [][Next]_i
Judge == i > Len(Cases) \/ Ok(Cases[i]) \/ PrintT(<<"BAD", i>>)
=============================================================================
