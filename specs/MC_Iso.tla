---- MODULE MC_Iso ----
(* Two sessions of different users working on disjoint subtrees, all interleavings of their steps.       *)
(* Isolation as a design property: a step of one session never changes anything belonging to the other *)
(* (its session record, its user's counter, its subtree).                                              *)
EXTENDS MC_Core
c_Users == {"ua", "ub"}
c_UCfg == [u \in c_Users |-> CASE u = "ua" -> [login |-> "ua", pw |-> "", max |-> 0, perms |-> <<>>, home |-> <<>>, base |-> <<"A">>]
                              [] OTHER -> [login |-> "ub", pw |-> "", max |-> 0, perms |-> <<>>, home |-> <<>>, base |-> <<"B">>]]
NA == [abs |-> FALSE, segs |-> <<>>]
P(abs, segs) == [abs |-> abs, segs |-> segs]
C(v, a, x, n) == [v |-> v, a |-> a, x |-> x, n |-> n]
c_Cmds == {C("user", NA, "ua", 0), C("user", NA, "ub", 0), C("pasv", NA, "", 0), C("quit", NA, "", 0),
           C("mkd", P(FALSE, <<"x">>), "", 0), C("stor", P(FALSE, <<"y">>), "", 0), C("retr", P(FALSE, <<"f">>), "", 0),
           C("rest", NA, "dec", 1), C("rnfr", P(FALSE, <<"f">>), "", 0), C("cwd", P(TRUE, <<"..", "..">>), "", 0)}
c_Tree == [d |-> {<<"A">>, <<"B">>}, f |-> (<<"A", "f">> :> <<1, 2>> @@ <<"B", "f">> :> <<3>>)]
c_Datas == {<<7>>}
\* session 1 only ever logs in as ua, session 2 as ub (the environment is restricted, not the server)
IsoConstraint == /\ MCConstraint
                 /\ ss[1].user \in {"", "ua"} /\ ss[2].user \in {"", "ub"}
                 /\ ss[1].h.x # "ub" /\ ss[2].h.x # "ua"
                 /\ ss[1].h2.x # "ub" /\ ss[2].h2.x # "ua"
                 /\ Cardinality(NodesT(tree)) <= 7
Sub(t, b) == [d |-> {p \in t.d : IsPrefix(b, p)}, f |-> Restrict(t.f, {p \in DOMAIN t.f : IsPrefix(b, p)})]
Owner(s) == IF s = 1 THEN "ua" ELSE "ub"
\* a step that touches session s's record leaves the other session, the other user's counter and subtree untouched
C17_NoInterference ==
  [][\A s \in {1, 2} : LET o == 3 - s IN
        ss'[s] # ss[s] /\ ss'[o] # ss[o] => FALSE]_vars
C17_OwnSubtreeOnly ==
  [][\A s \in {1, 2} : LET o == 3 - s IN
        (ss'[o] = ss[o] /\ ss'[s] # ss[s]) =>
           /\ Sub(tree', UCfg[Owner(o)].base) = Sub(tree, UCfg[Owner(o)].base)
           /\ uused'[Owner(o)] = uused[Owner(o)]]_vars
====
