---------------------------- MODULE TraceFtpCore ----------------------------
(***************************************************************************)
(* Batch trace validation: every recorded execution of the real server    *)
(* (one JSON array of events per trace) must be a behaviour of FtpCore.    *)
(* Each event is bound to exactly one FtpCore action (no silent steps);    *)
(* Snap events compare the implementation's projected state and resource   *)
(* ledger with the model's state at every quiescent instant.               *)
(***************************************************************************)
EXTENDS FtpCore, Json, IOUtils, TLCExt

VARIABLES tid, l

Traces == JsonDeserialize(IOEnv.TRACE_FILE)

Set(q) == {q[i] : i \in 1..Len(q)}
TreeOf(j) == [d |-> Set(j.d),
              f |-> [p \in {j.f[i].p : i \in 1..Len(j.f)} |-> j.f[CHOOSE i \in 1..Len(j.f) : j.f[i].p = p].c]]

TraceInit ==
  /\ tid \in 1..Len(Traces)
  /\ l = 2
  /\ Init
  /\ tree = TreeOf(Traces[tid][1].tree)
  /\ TLCSet(tid, 0)

Pairs(q) == {<<q[i][1], q[i][2]>> : i \in 1..Len(q)}

DSocks(s) == (IF ss[s].dc = "parked" THEN 1 ELSE 0) + (IF ss[s].w.v # "" /\ ss[s].w.sock THEN 1 ELSE 0) + ss[s].xd
Files(s)  == IF ss[s].w.v # "" /\ ss[s].w.fopen THEN 1 ELSE 0
Lsns(s)   == (IF ss[s].lsn # 0 THEN {ss[s].lsn} ELSE {})
             \cup (IF ss[s].h.pc = "bound" THEN {ss[s].h.port} ELSE {})

SessOk(e) ==
  \A i \in 1..Len(e.sess) :
    LET x == e.sess[i]  r == PreAbor(ss[x.s]) IN
    x.s \in Set(e.gated) \/
      /\ x.user = r.user /\ x.logged = r.logged
      /\ (r.user # "" => x.cwd = r.cwd)
      /\ x.rnfr = r.rnfr
      /\ x.rest = r.rest
      /\ x.dc = (r.dc = "parked")

Snap(t, e) ==
  /\ At(t)
  /\ Quiescent(Set(e.gated))
  /\ (e.used >= 0 => e.used = used)
  /\ \A i \in 1..Len(e.uused) : uused[e.uused[i][1]] = e.uused[i][2]
  /\ (UsePool /\ e.haspool => Len(e.pool) = Cardinality(pool) /\ Set(e.pool) = PoolPorts)
  /\ (e.hastable => Set(e.table) = table)
  /\ \A s \in Sessions : DSocks(s) = Cardinality({i \in 1..Len(e.dsock) : e.dsock[i] = s})
  /\ \A s \in Sessions : Files(s) = Cardinality({i \in 1..Len(e.files) : e.files[i] = s})
  /\ Pairs(e.lsn) = UNION {{<<s, p>> : p \in Lsns(s)} : s \in Sessions}
  /\ SessOk(e)
  \* no task of the server outlives the session it belongs to, and closing the server completes (C12)
  /\ Set(e.zomb) \subseteq Set(e.gated)
  \* (known finding close-waits-for-stalled-peer: a closed control connection with unsent replies and a peer that has stopped
  \*  reading stays open, and keeps Server.close() waiting)
  /\ (e.closing /\ e.gated = <<>> /\ ~e.closeok => "close-waits-for-stalled-peer" \in KF /\ e.stalled # <<>>)
  /\ (e.stalled # <<>> => "close-waits-for-stalled-peer" \in KF)
  /\ (e.hastree => TreeOf(e.tree) = tree)
  /\ UNCHANGED <<tree, ss, uused, used, pool, table, srv>>

Step(e) ==
  CASE e.ev = "Connect"     -> Connect(e.s, e.t)
    [] e.ev = "Send"        -> SendLine(e.s, e.t, e.v, e.a, e.x, e.n)
    [] e.ev = "Garbage"     -> Garbage(e.s, e.t)
    [] e.ev = "DataConnect" -> DataConnect(e.s, e.t)
    [] e.ev = "DataSend"    -> DataSend(e.s, e.t, e.data)
    [] e.ev = "DataEof"     -> DataEof(e.s, e.t)
    [] e.ev = "Vanish"      -> Vanish(e.s, e.t)
    [] e.ev = "ServerClose" -> ServerClose(e.t)
    [] e.ev = "Tick"        -> Tick(e.t)
    [] e.ev = "Reply"       -> ReplyEv(e.s, e.t, e.code) /\ PayloadOk(e.s, e.code, e)
    [] e.ev = "FsMut"       -> FsMut(e.s, e.t, e.op, e.p, e.q, e.res)
    [] e.ev = "FsQuery"     -> FsQuery(e.s, e.t, e.p, e.res)
    [] e.ev = "FsFile"      -> FsFile(e.s, e.t, e.op, e.p, e.res, e.mode, e.off, e.data)
    [] e.ev = "LsnTry"      -> LsnTry(e.s, e.t, e.port)
    [] e.ev = "LsnBound"    -> LsnBound(e.s, e.t, e.port)
    [] e.ev = "LsnFail"     -> LsnFail(e.s, e.t, e.port, e.why)
    [] e.ev = "DataOut"     -> DataOut(e.s, e.t, e.data)
    [] e.ev = "Listing"     -> Listing(e.s, e.t, Set(e.entries))
    [] e.ev = "DataClose"   -> DataClose(e.s, e.t)
    [] e.ev = "CtlClose"    -> CtlClose(e.s, e.t)
    [] e.ev = "Snap"        -> Snap(e.t, e)
    [] OTHER -> FALSE

TraceNext ==
  /\ l <= Len(Traces[tid])
  /\ Step(Traces[tid][l])
  /\ l' = l + 1
  /\ UNCHANGED tid

TraceSpec == TraceInit /\ [][TraceNext]_<<vars, tid, l>>

Reached == IF l - 1 > TLCGet(tid) THEN TLCSet(tid, l - 1) ELSE TRUE

Report ==
  \A t \in 1..Len(Traces) : PrintT(<<"RES", t, TLCGet(t), Len(Traces[t])>>)

\* diagnosis of one rejected trace: stop at the longest matched prefix and show the state
DiagK == IOEnv.DIAG_K
Diag == l - 1 < atoi(DiagK)
=============================================================================
