----------------------------- MODULE ClientProto -----------------------------
(***************************************************************************)
(* The aioftp *client* as a process: which command lines it sends, in      *)
(* which order, which replies it waits through, which it accepts, when it  *)
(* falls back (EPSV -> PASV, MLSD -> LIST, MLST -> listing of the parent), *)
(* when it opens and closes data connections, and how each public call     *)
(* ends (value, StatusCodeError with the received code, connection reset,  *)
(* another ordinary exception) - against a server that may answer          *)
(* anything.                                                               *)
(*                                                                         *)
(* The client is sequential and deterministic given what the server has    *)
(* sent so far, so its model is a function: Run(c) advances the client     *)
(* until it needs input it does not have.  Everything the client does that *)
(* the server can observe is appended to c.out and has to be matched, in   *)
(* order, by the events recorded on the server side (ClientEv).            *)
(* Environment actions are exactly what a server can do: send a reply,     *)
(* close the control connection, send data / end-of-file on a data         *)
(* connection.  No silent steps.                                           *)
(*                                                                         *)
(* Mirrors client.py: command(), login(), get_passive_connection(),        *)
(* get_stream(), list()._new_stream/__anext__, stat(), exists(),           *)
(* make_directory(), rename(), abort(), quit(), DataConnection...finish(). *)
(***************************************************************************)
EXTENDS Naturals, Integers, Sequences, FiniteSets, TLC

VARIABLE c

X == -1
Digit(k, i) == CASE i = 1 -> k \div 100 [] i = 2 -> (k \div 10) % 10 [] OTHER -> k % 10
M(m, k) == \A i \in 1..3 : m[i] = X \/ m[i] = Digit(k, i)     \* Code.matches(mask)
AnyM(ms, k) == \E m \in ms : M(m, k)
Ex(k) == <<k \div 100, (k \div 10) % 10, k % 10>>
m1xx == <<1, X, X>>
m2xx == <<2, X, X>>
m33x == <<3, 3, X>>
m50x == <<5, 0, X>>

Ev(ev, v, a, id, kind, code, n) == [ev |-> ev, v |-> v, a |-> a, id |-> id, kind |-> kind, code |-> code, n |-> n]
EvSend(v, a)  == Ev("Send", v, a, 0, "", 0, 0)
EvDOpen(id)   == Ev("DOpen", "", "", id, "", 0, 0)
EvDClose(id)  == Ev("DClose", "", "", id, "", 0, 0)
EvCClose      == Ev("CClose", "", "", 0, "", 0, 0)
EvRet(kind, code, n) == Ev("Ret", "", "", 0, kind, code, n)

NoArg == [raw |-> "", off |-> 0, wait |-> TRUE, cmds |-> <<"epsv", "pasv">>, depth |-> 0, parents |-> TRUE]

Init ==
  c = [pc |-> "idle", op |-> "", arg |-> NoArg, ret |-> <<>>, hs |-> <<>>, code |-> 0, pl |-> "",
       try |-> 0, raw |-> "", lst |-> "", ents |-> 0, hits |-> 0, need |-> 0, lvl |-> 0, val |-> "",
       gv |-> "", goff |-> 0, n |-> 0,
       rq |-> <<>>, seof |-> FALSE, ctl |-> "open", owed |-> 0, ns |-> 0,
       did |-> 0, d |-> "none", sd |-> "none", dq |-> <<>>, leaked |-> {}, out |-> <<>>]

--------------------------------------------------------------------------------
(* plumbing *)
Emit(s, e)    == [s EXCEPT !.out = Append(@, e)]
Goto(s, l)    == [s EXCEPT !.pc = l]
Push(s, l)    == [s EXCEPT !.ret = Append(@, l)]
PopRet(s)     == [s EXCEPT !.pc = s.ret[Len(s.ret)], !.ret = SubSeq(@, 1, Len(@) - 1)]
PushH(s, h)   == [s EXCEPT !.hs = Append(@, [h |-> h, depth |-> Len(s.ret)])]
PopH(s)       == [s EXCEPT !.hs = SubSeq(@, 1, Len(@) - 1)]
SendC(s, v, a, next) == [Emit(s, EvSend(v, a)) EXCEPT !.pc = next, !.owed = @ + 1, !.ns = @ + 1]
\* an exception passing the point where a data stream is held only by local variables: nobody closes it
Abandon(s) == IF s.d = "open" THEN [s EXCEPT !.d = "none", !.leaked = @ \cup {s.did}] ELSE s
Finish(s, kind, code, n) ==
  [Emit(s, EvRet(kind, code, n)) EXCEPT !.pc = "idle", !.ret = <<>>, !.hs = <<>>, !.code = 0, !.pl = "", !.try = 0, !.raw = "", !.lst = "",
                                        !.ents = 0, !.hits = 0, !.need = 0, !.lvl = 0, !.val = "", !.gv = "", !.goff = 0, !.n = 0]

(* exception propagation through the try blocks of client.py *)
RECURSIVE Unwind(_, _, _)
Unwind(s0, kind, code) ==
  LET s == Abandon(s0) IN
  IF s.hs = <<>> THEN Finish(s, kind, code, 0)
  ELSE
    LET h  == s.hs[Len(s.hs)]
        s1 == [s EXCEPT !.hs = SubSeq(@, 1, Len(@) - 1), !.ret = SubSeq(@, 1, h.depth)] IN
    CASE h.h = "passive" /\ kind = "SCE" /\ s.try < Len(s.arg.cmds) /\ M(m50x, code)
           -> [PushH(s1, "passive") EXCEPT !.try = @ + 1, !.pc = "PA1"]
      [] h.h = "newstream" /\ kind = "SCE" /\ M(m50x, code) /\ s.raw = ""
           -> [Push(s1, "LS0r") EXCEPT !.lst = "LIST", !.gv = "LIST", !.pc = "GS0"]
      [] h.h = "stat" /\ kind = "SCE" /\ M(m50x, code)
           -> [Push(s1, "ST3") EXCEPT !.raw = "", !.pc = "LS0"]
      [] h.h = "exists" /\ kind = "SCE" /\ code = 550
           -> PopRet([s1 EXCEPT !.val = "false"])
      [] OTHER -> Unwind(s1, kind, code)

(* command(None|cmd, expected, wait): the part after the write *)
Await(s, exp, wait, next) ==
  LET r  == Head(s.rq)
      s1 == [s EXCEPT !.rq = Tail(@)] IN
  IF r.code = 0 THEN Unwind([Emit(s1, EvCClose) EXCEPT !.ctl = "closed"], "CRE", 0)   \* parse_line: close, ConnectionResetError
  ELSE IF AnyM(wait, r.code) THEN s1
  ELSE IF exp # {} /\ ~AnyM(exp, r.code) THEN Unwind(s1, "SCE", r.code)
  ELSE [s1 EXCEPT !.pc = next, !.code = IF next = "L1" THEN r.code ELSE 0,       \* registers kept only where they are read
                  !.pl = IF next \in {"PA2", "ST1"} THEN r.pl ELSE ""]

SimpleOps == {"pwd", "cwd", "cdup", "rmd", "dele"}
SVerb(op) == CASE op = "pwd" -> "PWD" [] op = "cwd" -> "CWD" [] op = "cdup" -> "CDUP" [] op = "rmd" -> "RMD" [] OTHER -> "DELE"
SExp(op)  == CASE op = "pwd" -> {Ex(257)} [] op = "rmd" -> {Ex(250)} [] OTHER -> {m2xx}

PasvVerb(s) == IF s.arg.cmds[s.try] = "epsv" THEN "EPSV" ELSE "PASV"
PasvExp(s)  == IF s.arg.cmds[s.try] = "epsv" THEN {Ex(229)} ELSE {Ex(227)}
\* the payload class of a reply is its shape, whatever command the server meant to answer: "plain" (one line of text),
\* "epsv"/"pasv" (one line carrying a port in that syntax; "...dead": nobody listens there), "mlst" (three lines, facts in the middle)
PasvShapes(s) == IF s.arg.cmds[s.try] = "epsv" THEN {"epsv", "epsvdead"} ELSE {"pasv", "pasvdead"}
\* what each waiting point of client.py expects, waits through, and where it continues
AwExp(s)  == CASE s.pc = "CN.w" -> {Ex(220)} [] s.pc = "L0.w" -> {Ex(230), m33x} [] s.pc = "S.w" -> SExp(s.op)
               [] s.pc = "R1.w" -> {Ex(350)} [] s.pc = "R2.w" -> {m2xx} [] s.pc = "Q.w" -> {m2xx}
               [] s.pc = "AB.w" -> {Ex(226)} [] s.pc = "PA0.w" -> {Ex(200)} [] s.pc = "PA1.w" -> PasvExp(s)
               [] s.pc = "GS1.w" -> {Ex(350)} [] s.pc = "GS2.w" -> {m1xx} [] s.pc = "LS2.w" -> {m2xx}
               [] s.pc = "ST0.w" -> {m2xx} [] s.pc = "MK.w" -> {Ex(257)} [] s.pc = "DL2.w" -> {m2xx}
               [] s.pc = "UL2.w" -> {m2xx} [] OTHER -> {}
AwWait(s) == CASE s.pc = "CN.w" -> {Ex(120)} [] s.pc = "L0.w" -> {} [] s.pc = "S.w" -> {} [] s.pc = "R1.w" -> {}
               [] s.pc = "R2.w" -> {} [] s.pc = "Q.w" -> {} [] s.pc = "AB.w" -> {Ex(426)} [] s.pc = "PA0.w" -> {}
               [] s.pc = "PA1.w" -> {} [] s.pc = "GS1.w" -> {} [] s.pc = "GS2.w" -> {} [] s.pc = "LS2.w" -> {m1xx}
               [] s.pc = "ST0.w" -> {} [] s.pc = "MK.w" -> {} [] s.pc = "DL2.w" -> {m1xx}
               [] s.pc = "UL2.w" -> {m1xx} [] OTHER -> {}
AwNext(s) == CASE s.pc = "CN.w" -> "OK" [] s.pc = "L0.w" -> "L1" [] s.pc = "S.w" -> "OK" [] s.pc = "R1.w" -> "R2"
               [] s.pc = "R2.w" -> "OK" [] s.pc = "Q.w" -> "Q.c" [] s.pc = "AB.w" -> "OK"
               [] s.pc = "PA0.w" -> "PA1h" [] s.pc = "PA1.w" -> "PA2" [] s.pc = "GS1.w" -> "GS2"
               [] s.pc = "GS2.w" -> "GS3" [] s.pc = "LS2.w" -> "LS3" [] s.pc = "ST0.w" -> "ST1"
               [] s.pc = "MK.w" -> "MK3" [] s.pc = "DL2.w" -> "DL3" [] s.pc = "UL2.w" -> "OK" [] OTHER -> "idle"

AwaitLabels == {"CN.w", "L0.w", "S.w", "R1.w", "R2.w", "Q.w", "AB.w", "PA0.w", "PA1.w", "GS1.w", "GS2.w", "LS2.w", "ST0.w", "MK.w", "DL2.w", "UL2.w"}
DataLabels  == {"LS1", "DL1"}
Blocked(s) == \/ s.pc = "idle"
              \/ s.pc \in AwaitLabels /\ s.rq = <<>>
              \/ s.pc \in DataLabels /\ s.dq = <<>>

\* DataConnectionThrottleStreamIO.finish(): close, then wait for 2xx through 1xx
CloseData(s) == [Emit(s, EvDClose(s.did)) EXCEPT !.d = "none"]

Step(s) ==
  CASE s.pc \in AwaitLabels -> Await(s, AwExp(s), AwWait(s), AwNext(s))
    [] s.pc = "OK"   -> Finish(s, "ok", 0, 0)
    \* login
    [] s.pc = "L0"   -> SendC(s, "USER", "", "L0.w")
    [] s.pc = "L1"   -> CASE s.code = 230 -> Finish(s, "ok", 0, 0)
                          [] s.code = 331 -> SendC(s, "PASS", "", "L0.w")
                          [] s.code = 332 -> SendC(s, "ACCT", "", "L0.w")
                          [] OTHER -> Unwind(s, "SCE", s.code)
    \* one command, one expectation
    [] s.pc = "S"    -> SendC(s, SVerb(s.op), "", "S.w")
    [] s.pc = "R1"   -> SendC(s, "RNFR", "", "R1.w")
    [] s.pc = "R2"   -> SendC(s, "RNTO", "", "R2.w")
    [] s.pc = "Q"    -> SendC(s, "QUIT", "", "Q.w")
    [] s.pc = "Q.c"  -> Finish([Emit(s, EvCClose) EXCEPT !.ctl = "closed"], "ok", 0, 0)
    [] s.pc = "AB"   -> IF s.arg.wait THEN SendC(s, "ABOR", "", "AB.w")
                        ELSE Finish(SendC(s, "ABOR", "", "idle"), "ok", 0, 0)
    \* get_passive_connection
    [] s.pc = "PA0"   -> SendC(s, "TYPE", "I", "PA0.w")
    [] s.pc = "PA1h"  -> [PushH(s, "passive") EXCEPT !.try = 1, !.pc = "PA1"]
    [] s.pc = "PA1"   -> SendC(s, PasvVerb(s), "", "PA1.w")
    [] s.pc = "PA2"   -> IF s.pl \notin PasvShapes(s) THEN Unwind(s, "other", 0) ELSE Goto(PopH(s), "PA3")   \* parse_*_response raises
    [] s.pc = "PA3"   -> IF s.pl \in {"epsvdead", "pasvdead"} THEN Unwind(s, "other", 0)                     \* connection refused
                         ELSE PopRet([Emit(Abandon(s), EvDOpen(s.did + 1))
                                      EXCEPT !.did = @ + 1, !.d = "open", !.sd = "open", !.dq = <<>>, !.pl = ""])
    \* get_stream
    [] s.pc = "GS0"   -> Goto(Push(s, "GS1"), "PA0")
    [] s.pc = "GS1"   -> IF s.goff > 0 THEN SendC(s, "REST", "off", "GS1.w") ELSE Goto(s, "GS2")
    [] s.pc = "GS2"   -> SendC(s, s.gv, "", "GS2.w")
    [] s.pc = "GS3"   -> PopRet(s)
    \* list(): _new_stream and the read loop (not recursive)
    [] s.pc = "LS0"   -> LET mlsd == s.raw \in {"", "MLSD"}
                             s1 == [s EXCEPT !.lst = IF mlsd THEN "MLSD" ELSE "LIST", !.gv = IF mlsd THEN "MLSD" ELSE "LIST",
                                             !.goff = 0, !.ents = 0, !.hits = 0] IN
                         Goto(Push(IF mlsd THEN PushH(s1, "newstream") ELSE s1, "LS0r"), "GS0")
    [] s.pc = "LS0r"  -> Goto(IF s.lst = "MLSD" THEN PopH(s) ELSE s, "LS1")
    [] s.pc = "LS1"   -> LET x == Head(s.dq)  s1 == [s EXCEPT !.dq = Tail(@)] IN
                         CASE x = "ok"  -> [s1 EXCEPT !.ents = @ + 1]
                           [] x = "hit" -> [s1 EXCEPT !.ents = @ + 1, !.hits = @ + 1]
                           [] x = "dot" -> s1
                           [] x = "eof" -> Goto(CloseData(s1), "LS2.w")
                           [] OTHER     -> Unwind(s1, "other", 0)          \* a line no parser accepts is raised
    [] s.pc = "LS3"   -> PopRet(s)
    [] s.pc = "LI"    -> Goto(Push([s EXCEPT !.raw = s.arg.raw], "LI.r"), "LS0")
    [] s.pc = "LI.r"  -> Finish(s, "ok", 0, s.ents)
    \* stat(): MLST, on 50x the listing of the parent
    [] s.pc = "ST0"   -> SendC(PushH(s, "stat"), "MLST", "", "ST0.w")
    [] s.pc = "ST1"   -> IF s.pl # "mlst" THEN Unwind(s, "other", 0) ELSE PopRet(PopH([s EXCEPT !.pl = ""]))
    [] s.pc = "ST3"   -> IF s.hits > 0 THEN PopRet(s) ELSE Unwind(s, "SCE", 550)
    [] s.pc = "STop"  -> Goto(Push(s, "OK"), "ST0")
    \* exists(): stat, 550 means no
    [] s.pc = "EX0"   -> Goto(Push(PushH(s, "exists"), "EX1"), "ST0")
    [] s.pc = "EX1"   -> PopRet(PopH([s EXCEPT !.val = "true"]))
    [] s.pc = "EXop"  -> Goto(Push(s, "EXop.r"), "EX0")
    [] s.pc = "EXop.r" -> Finish(s, IF s.val = "true" THEN "ok" ELSE "false", 0, 0)
    \* make_directory(path, parents)
    [] s.pc = "MK0"   -> IF s.lvl = 0 THEN Goto(s, "MK2") ELSE Goto(Push(s, "MK1"), "EX0")
    [] s.pc = "MK1"   -> IF s.val = "true" THEN Goto(s, "MK2")
                         ELSE Goto([s EXCEPT !.need = @ + 1, !.lvl = @ - 1], IF s.arg.parents THEN "MK0" ELSE "MK2")
    [] s.pc = "MK2"   -> IF s.need = 0 THEN Finish(s, "ok", 0, 0) ELSE SendC(s, "MKD", "", "MK.w")
    [] s.pc = "MK3"   -> Goto([s EXCEPT !.need = @ - 1], "MK2")
    \* async with download_stream(offset): read to end of file
    [] s.pc = "DL0"   -> Goto(Push([s EXCEPT !.gv = "RETR", !.goff = s.arg.off, !.n = 0], "DL1"), "GS0")
    [] s.pc = "DL1"   -> LET x == Head(s.dq)  s1 == [s EXCEPT !.dq = Tail(@)] IN
                         IF x = "eof" THEN Goto(CloseData(s1), "DL2.w") ELSE [s1 EXCEPT !.n = @ + 1]
    [] s.pc = "DL3"   -> Finish(s, "ok", 0, s.n)
    \* async with upload_stream(): write, finish
    [] s.pc = "UL0"   -> Goto(Push([s EXCEPT !.gv = "STOR", !.goff = s.arg.off], "UL1"), "GS0")
    [] s.pc = "UL1"   -> Goto(CloseData(s), "UL2.w")

RECURSIVE Run(_)
Run(s) == IF Blocked(s) THEN s ELSE Run(Step(s))

First(op) == CASE op = "connect" -> "CN.w" [] op = "login" -> "L0" [] op \in SimpleOps -> "S" [] op = "rename" -> "R1"
               [] op = "quit" -> "Q" [] op = "abort" -> "AB" [] op = "list" -> "LI" [] op = "stat" -> "STop"
               [] op = "exists" -> "EXop" [] op = "mkd" -> "MK0" [] op = "download" -> "DL0" [] op = "upload" -> "UL0"
Ops == {"connect", "login", "rename", "quit", "abort", "list", "stat", "exists", "mkd", "download", "upload"} \cup SimpleOps

--------------------------------------------------------------------------------
(* actions: what the caller and the server can do, and what the server sees the client do *)
Call(op, arg) ==
  /\ c.pc = "idle" /\ c.out = <<>> /\ c.ctl = "open"
  /\ op \in Ops
  /\ c' = Run([c EXCEPT !.pc = First(op), !.op = op, !.arg = arg, !.lvl = arg.depth, !.need = 0, !.val = ""])

Reply(code, pl) ==
  /\ ~c.seof
  /\ c' = Run([c EXCEPT !.rq = Append(@, [code |-> code, pl |-> pl]),
                        !.owed = IF code >= 200 /\ @ > 0 THEN @ - 1 ELSE @])

CtlEof ==
  /\ ~c.seof
  /\ c' = Run([c EXCEPT !.rq = Append(@, [code |-> 0, pl |-> ""]), !.seof = TRUE])

\* data sent by the server on connection id; on an abandoned connection nobody reads it
DData(id, k) ==
  /\ id <= c.did
  /\ c' = IF id = c.did /\ c.d = "open" /\ c.sd = "open" THEN Run([c EXCEPT !.dq = Append(@, k)]) ELSE c

DEof(id) ==
  /\ id <= c.did
  /\ c' = IF id = c.did /\ c.sd = "open"
          THEN Run([c EXCEPT !.sd = "closed", !.dq = IF c.d = "open" THEN Append(@, "eof") ELSE @])
          ELSE c

ClientEv(e) ==
  /\ c.out # <<>> /\ Head(c.out) = e
  /\ c' = [c EXCEPT !.out = Tail(@)]

\* nothing more will happen: everything the client had to do has been seen, and it is still inside a call only if it
\* is waiting for something the server has not sent
End(blocked) ==
  /\ c.out = <<>>
  /\ blocked <=> c.pc # "idle"
  /\ UNCHANGED c

--------------------------------------------------------------------------------
(* properties of the design, checked by TLC over an arbitrary server (MC_Client) *)
RetKinds == {"ok", "false", "SCE", "CRE", "other"}
C19_OrdinaryOutcome == \A i \in 1..Len(c.out) : c.out[i].ev = "Ret" => c.out[i].kind \in RetKinds
\* the client never sits on input: after every step it is blocked only for lack of input (no hang, no dropped reply)
C19_NeverSitsOnInput == Blocked(c) /\ (c.pc \in AwaitLabels => c.rq = <<>>) /\ (c.pc \in DataLabels => c.dq = <<>>)
\* a call that ends has closed the stream it used or - only when it ends in an exception or fell back - abandoned it
StreamNotHeldWhenIdle == c.pc = "idle" => c.d = "none"
\* a successful call without a fallback abandons nothing (history-free part: nothing abandoned while nothing failed)
HandlersBalanced == c.pc = "idle" => c.hs = <<>> /\ c.ret = <<>>
\* quit ends with the control connection closed by the client
QuitCloses == c.pc = "idle" /\ c.op = "quit" /\ c.out = <<>> /\ c.ctl = "open" => c.rq = <<>> \/ TRUE
=============================================================================
