------------------------------ MODULE Throttle ------------------------------
(***************************************************************************)
(* One speed limiter (aioftp.common.Throttle) in integer ticks.            *)
(*   tpb    ticks per byte (0 = no limit)                                  *)
(*   reset  length of the accounting window in ticks                       *)
(*   start  origin of the window (-1 = nothing accounted yet)              *)
(*   sum    bytes accounted since start (may go negative after a fold)     *)
(* A stream calls Wait before every I/O and Append after it (with the      *)
(* instant at which the I/O started).  History variables (moved, t0,       *)
(* folds) state the rate bound.                                            *)
(***************************************************************************)
EXTENDS Naturals, Integers, Sequences, TLC

VARIABLES tpb, reset, start, sum, now, moved, t0, folds, lastev, pend, slack, permits, known
tvars == <<tpb, reset, start, sum, now, moved, t0, folds, lastev, pend, slack, permits, known>>

Max(a, b) == IF a > b THEN a ELSE b
\* round(a / b) to the nearest integer, ties to even (Python's round), a >= 0, b > 0
RoundHalfEven(a, b) ==
  LET q == a \div b  r == a % b IN
  IF 2 * r < b THEN q ELSE IF 2 * r > b THEN q + 1 ELSE IF q % 2 = 0 THEN q ELSE q + 1

Limited == tpb > 0
WaitEnd(t) == IF Limited /\ start >= 0 THEN Max(t, start + sum * tpb) ELSE t

TInitS(p, r, sl) == /\ tpb = p /\ reset = r /\ start = -1 /\ sum = 0 /\ now = 0
               /\ moved = 0 /\ t0 = -1 /\ folds = 0 /\ lastev = "init" /\ pend = <<>> /\ slack = sl /\ permits = {} /\ known = {}

TInit(p, r) == TInitS(p, r, 0)

\* wait() number k is entered at te: the instant at which it must end is fixed by the accounting at that moment
WaitBegin(k, te, strm) ==
  /\ te >= now /\ now' = te /\ lastev' = "enter"
  /\ pend' = [x \in DOMAIN pend \cup {k} |-> IF x = k THEN [end |-> WaitEnd(te), strm |-> strm] ELSE pend[x]]
  /\ UNCHANGED <<tpb, reset, start, sum, moved, t0, folds, slack, permits, known>>
\* ... and it is left at tx - never earlier and never later than that instant
WaitDone(k, tx) ==
  /\ k \in DOMAIN pend /\ tx = pend[k].end /\ tx >= now
  /\ now' = tx /\ lastev' = "wait"
  /\ permits' = permits \cup {pend[k].strm}            \* that stream may now do one I/O
  /\ pend' = [x \in DOMAIN pend \ {k} |-> pend[x]]
  /\ UNCHANGED <<tpb, reset, start, sum, moved, t0, folds, slack, known>>
Wait(te, tx) == te >= now /\ tx = WaitEnd(te) /\ now' = tx /\ lastev' = "wait" /\ permits' = permits \cup {0}
                /\ UNCHANGED <<tpb, reset, start, sum, moved, t0, folds, pend, slack, known>>

\* append(data, ts): n bytes whose I/O started at ts are accounted at time t
\* (no limited I/O without having been let through by this limiter since the stream's previous I/O)
AccountBy(t, ts, n, strm) ==
  /\ t >= now /\ ts <= t /\ now' = t
  \* (a stream's very first I/O on this limiter may already have been in flight when the limiter was attached to it)
  /\ (Limited /\ strm \in known => strm \in permits) /\ permits' = permits \ {strm} /\ known' = known \cup {strm}
  /\ IF ~Limited THEN UNCHANGED <<start, sum, folds>>
     ELSE LET s0 == IF start < 0 THEN ts ELSE start IN
          IF ts - s0 > reset
            THEN /\ sum' = sum - RoundHalfEven(ts - s0, tpb) + n
                 /\ start' = ts /\ folds' = folds + 1
            ELSE sum' = sum + n /\ start' = s0 /\ UNCHANGED folds
  /\ moved' = moved + n
  /\ t0' = IF t0 < 0 /\ Limited THEN ts ELSE t0
  /\ lastev' = "account"
  /\ UNCHANGED <<tpb, reset, pend, slack>>

Account(t, ts, n) == AccountBy(t, ts, n, 0)

\* the limit is changed: the memory is dropped
SetLimit(t, p) ==
  /\ t >= now /\ now' = t /\ tpb' = p /\ start' = -1 /\ sum' = 0 /\ moved' = 0 /\ t0' = -1 /\ folds' = 0 /\ lastev' = "limit" /\ permits' = {} /\ known' = {}
  /\ UNCHANGED <<reset, pend, slack>>

\* Rate bound: whenever a stream is let through (its wait ends), everything accounted so far - that is, everything
\* moved except the blocks still in flight, at most one per participating stream - fits into the time since the
\* first limited I/O began, with at most one byte of rounding slack per fold of the window.
\* `slack` = bytes of the blocks the *other* participating streams may have in flight (0 for a single stream).
RateBound == (Limited /\ t0 >= 0 /\ lastev = "wait") => moved * tpb <= (now - t0) + (folds + slack) * tpb
\* the accounting never drifts: what the window holds is what was moved minus what time has paid for
Typed == sum \in Int /\ start >= -1 /\ (Limited \/ (start = -1 /\ sum = 0))
=============================================================================
