---- MODULE MC_Perm ----
(* one session, nested permission table, every permission-checked verb on aliases of targets at depth 0..2 *)
EXTENDS MC_Core
c_Users == {"u"}
c_UCfg == [u \in c_Users |-> [login |-> "u", pw |-> "", max |-> 0,
            perms |-> <<[p |-> <<>>, r |-> TRUE, w |-> FALSE], [p |-> <<"a">>, r |-> FALSE, w |-> TRUE],
                        [p |-> <<"a", "b">>, r |-> TRUE, w |-> TRUE], [p |-> <<"a">>, r |-> TRUE, w |-> TRUE]>>,
            home |-> <<>>, base |-> <<"R">>]]
NA == [abs |-> FALSE, segs |-> <<>>]
P(abs, segs) == [abs |-> abs, segs |-> segs]
C(v, a, x, n) == [v |-> v, a |-> a, x |-> x, n |-> n]
Args == {P(TRUE, <<"a">>), P(FALSE, <<"a", "b">>), P(TRUE, <<"a", "b", "..", "f">>), P(FALSE, <<"..", "f">>), P(FALSE, <<"n">>),
         P(TRUE, <<"a", "b", "n">>)}
c_Cmds == {C("user", NA, "u", 0), C("pasv", NA, "", 0), C("pwd", NA, "", 0), C("cdup", NA, "", 0)}
          \cup {C(v, a, "", 0) : v \in {"cwd", "mkd", "rmd", "dele", "rnfr", "rnto", "mlst", "list", "retr", "stor"}, a \in Args}
c_Tree == [d |-> {<<"R">>, <<"R", "a">>, <<"R", "a", "b">>}, f |-> (<<"R", "f">> :> <<1>> @@ <<"R", "a", "f">> :> <<2>>)]
c_Datas == {<<7>>}
PermConstraint == MCConstraint /\ Cardinality(NodesT(tree)) <= 7 /\ \A p \in DOMAIN tree.f : Len(tree.f[p]) <= 2
\* a refused command changes neither the working directory nor anything else of the session
\* (the tree is out of reach of a refusal by construction: only FsMut / FsFile change it)
C04_RefusalIsNoop ==
  \A s \in Sessions : LET r == ss[s] IN
    (r.h.v \in PathVerbs /\ ~r.h.failed) =>
       \A o \in Outcomes(r, now) :
          Head(o.rep) \in {"550", "503"} =>
             /\ o.r.cwd = r.cwd /\ o.r.w = r.w /\ o.r.rnfr = r.rnfr /\ o.r.lsn = r.lsn /\ o.r.user = r.user
             /\ o.uu = uused /\ o.us = used
\* whatever spelling is used, the verdict depends on the resolved path only (by construction of Verdicts: checked as typing)
C04_NearestDefined == \A u \in Users : \A vp \in {<<>>, <<"a">>, <<"a", "b">>, <<"a", "x">>, <<"c">>} :
                         PermSet(u, vp, "r") # {} /\ PermSet(u, vp, "w") # {}
====
