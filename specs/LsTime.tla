------------------------------- MODULE LsTime -------------------------------
(***************************************************************************)
(* Calendar arithmetic (proleptic Gregorian, integers only) and the time   *)
(* precision rules of the two listing formats.                             *)
(*   MLSx   : UTC, exact to the second                                      *)
(*   ls -l  : local time; "Mon DD HH:MM" for a modification time within    *)
(*            the last half year (minute precision), "Mon DD  YYYY"        *)
(*            otherwise (day precision); the reader has to infer the year  *)
(* Instants are seconds since 1970-01-01T00:00:00Z (< 2^31: years <= 2037).*)
(* Judge walks over recorded pairs produced by the real formatter and      *)
(* parser, and over recorded client listings against the backend's truth.  *)
(***************************************************************************)
EXTENDS Naturals, Integers, Sequences, FiniteSets, TLC, Json, IOUtils
VARIABLE i
Cases == JsonDeserialize(IOEnv.CASE_FILE)

Half == 15778476            \* aioftp's HALF_OF_YEAR_IN_SECONDS
Day == 86400

IsLeap(y) == (y % 4 = 0 /\ y % 100 # 0) \/ y % 400 = 0
\* days since 1970-01-01 of civil date y-m-d (Howard Hinnant's algorithm, valid for y >= 1)
DaysFromCivil(y, m, d) ==
  LET yy == IF m <= 2 THEN y - 1 ELSE y
      era == yy \div 400
      yoe == yy - era * 400
      mp == IF m > 2 THEN m - 3 ELSE m + 9
      doy == (153 * mp + 2) \div 5 + d - 1
      doe == yoe * 365 + yoe \div 4 - yoe \div 100 + doy
  IN era * 146097 + doe - 719468
CivilFromDays(z0) ==
  LET z == z0 + 719468
      era == z \div 146097
      doe == z - era * 146097
      yoe == (doe - doe \div 1460 + doe \div 36524 - doe \div 146096) \div 365
      y == yoe + era * 400
      doy == doe - (365 * yoe + yoe \div 4 - yoe \div 100)
      mp == (5 * doy + 2) \div 153
      d == doy - (153 * mp + 2) \div 5 + 1
      m == IF mp < 10 THEN mp + 3 ELSE mp - 9
  IN <<IF m <= 2 THEN y + 1 ELSE y, m, d>>
\* broken-down time of instant t shifted by off seconds: <<Y, M, D, h, m, s>>
Civil(t, off) ==
  LET x == t + off  days == x \div Day  rem == x - days * Day  c == CivilFromDays(days) IN
  <<c[1], c[2], c[3], rem \div 3600, (rem % 3600) \div 60, rem % 60>>

MlsxStamp(t) == Civil(t, 0)
TimeForm(mtime, now) == now - Half < mtime /\ mtime <= now
\* what a reader of the ls line must obtain: <<Y, M, D, h, m>> in the lister's local time
LsExpected(mtime, nowf, off) ==
  LET c == Civil(mtime, off) IN
  IF TimeForm(mtime, nowf) THEN <<c[1], c[2], c[3], c[4], c[5]>> ELSE <<c[1], c[2], c[3], 0, 0>>
\* the year-less form is inherently ambiguous within one day of the half-year boundary
Ambiguous(mtime, nowf, nowp) ==
  \/ (nowf - mtime >= Half - Day /\ nowf - mtime <= Half + Day)
  \/ (nowp - mtime >= Half - Day /\ nowp - mtime <= Half + Day)

\* sanity of the calendar itself on every recorded instant
CalOk(t) == LET c == Civil(t, 0) IN
  /\ DaysFromCivil(c[1], c[2], c[3]) * Day + c[4] * 3600 + c[5] * 60 + c[6] = t
  /\ c[2] \in 1..12 /\ c[3] \in 1..31 /\ (c[2] = 2 => c[3] <= (IF IsLeap(c[1]) THEN 29 ELSE 28))

Set(q) == {q[k] : k \in 1..Len(q)}
Ok(c) ==
  CASE c.kind = "mlsx" -> c.stamp = MlsxStamp(c.mtime) /\ CalOk(c.mtime)
    [] c.kind = "ls" -> CalOk(c.mtime) /\ (Ambiguous(c.mtime, c.nowf, c.nowp) \/ c.parsed = LsExpected(c.mtime, c.nowf, c.off))
    [] c.kind = "listing" ->
         \* what the client learned = the backend's truth: each entry once, exact type and size, time to the format's precision
         /\ Len(c.got) = Len(c.truth)
         /\ \A e \in Set(c.truth) :
              \E g \in Set(c.got) :
                /\ g.name = e.name /\ g.type = e.type /\ (e.type = "file" => g.size = e.size)
                /\ IF c.format = "mlsx" THEN g.modify = MlsxStamp(e.mtime)
                   ELSE ~c.timectl \/ Ambiguous(e.mtime, c.now, c.now) \/ g.modify = LsExpected(e.mtime, c.now, c.off) \o <<0>>
    [] OTHER -> FALSE
Init == i = 1
Next == i <= Len(Cases) /\ i' = i + 1
Spec == Init /\ [][Next]_i
Judge == i > Len(Cases) \/ Ok(Cases[i]) \/ PrintT(<<"BAD", i>>)
=============================================================================
