--------------------------- MODULE TraceThrottle ---------------------------
(* batch validation of recorded Throttle event streams (one trace per throttle object) *)
EXTENDS Throttle, Json, IOUtils, TLCExt
VARIABLES tid, l
Traces == JsonDeserialize(IOEnv.TRACE_FILE)
TraceInit == /\ tid \in 1..Len(Traces) /\ l = 2 /\ TInitS(Traces[tid][1].tpb, Traces[tid][1].reset, Traces[tid][1].slack) /\ TLCSet(tid, 0)
Step(e) == CASE e.ev = "WaitBegin" -> WaitBegin(e.k, e.te, e.strm)
             [] e.ev = "WaitDone" -> WaitDone(e.k, e.tx)
             [] e.ev = "Append" -> AccountBy(e.t, e.ts, e.n, e.strm)
             [] e.ev = "SetLimit" -> SetLimit(e.t, e.tpb)
             [] OTHER -> FALSE
TraceNext == l <= Len(Traces[tid]) /\ Step(Traces[tid][l]) /\ l' = l + 1 /\ UNCHANGED tid
TraceSpec == TraceInit /\ [][TraceNext]_<<tvars, tid, l>>
Reached == IF l - 1 > TLCGet(tid) THEN TLCSet(tid, l - 1) ELSE TRUE
Report == \A t \in 1..Len(Traces) : PrintT(<<"RES", t, TLCGet(t), Len(Traces[t])>>)
=============================================================================
