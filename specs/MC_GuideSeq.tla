---- MODULE MC_GuideSeq ----
EXTENDS MC_Seq, Guide
====
