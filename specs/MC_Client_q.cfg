SPECIFICATION MCSpec
CONSTANTS
  MaxCalls = 2
  MaxLevel = 22
CONSTRAINT MCConstraint
VIEW MCView
INVARIANT C19_OrdinaryOutcome
INVARIANT C19_NeverSitsOnInput
INVARIANT StreamNotHeldWhenIdle
INVARIANT HandlersBalanced
CHECK_DEADLOCK FALSE
