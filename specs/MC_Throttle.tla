---------------------------- MODULE MC_Throttle ----------------------------
(* one throttle driven by every sequence of chunk sizes, I/O durations and idle gaps up to a horizon *)
EXTENDS Throttle
CONSTANTS TPB, Reset, Chunks, Durs, Gaps, Horizon
VARIABLES pc, ts
mvars == <<tvars, pc, ts>>
MInit == TInit(TPB, Reset) /\ pc = "idle" /\ ts = 0
DoWait == /\ pc = "idle" /\ \E g \in Gaps : Wait(now + g, WaitEnd(now + g)) /\ pc' = "io" /\ ts' = WaitEnd(now + g)
DoIO   == /\ pc = "io" /\ \E n \in Chunks, d \in Durs : Account(now + d, ts, n) /\ pc' = "idle" /\ UNCHANGED ts
MNext == DoWait \/ DoIO
MSpec == MInit /\ [][MNext]_mvars
Bound == now <= Horizon
\* a wait never ends later than the accounting requires, and not at all when nothing is owed
NoNeedlessDelay == pc = "io" => (ts = now /\ (start < 0 \/ ts >= start + sum * tpb))
=============================================================================
