---------------------------- MODULE ThrottleSys ----------------------------
(* System-level rate bound for end-to-end transfers: ground-truth byte counts from the network against every    *)
(* configured limit.  A case = one run: for each limit that applies to a group of streams, the payload bytes    *)
(* those streams moved in the limited direction, and the virtual duration of the run.                         *)
EXTENDS Naturals, Sequences, TLC, Json, IOUtils
VARIABLE i
Cases == JsonDeserialize(IOEnv.CASE_FILE)
\* bytes may run ahead of limit x time by at most the blocks in flight (one per participating stream)
BoundOk(b) == (b.bytes - b.streams * b.block) * b.tpb <= b.dur
Ok(c) == \A k \in 1..Len(c.bounds) : BoundOk(c.bounds[k])
Init == i = 1
Next == i <= Len(Cases) /\ i' = i + 1
Spec == Init /\ [][Next]_i
Judge == i > Len(Cases) \/ Ok(Cases[i]) \/ PrintT(<<"BAD", i>>)
=============================================================================
