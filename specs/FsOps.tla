------------------------------- MODULE FsOps -------------------------------
(***************************************************************************)
(* The storage contract shared by the three shipped backends: a tree of    *)
(* directories and files, path resolution, and for every mutation when it  *)
(* fails and what it does.  Used by FtpCore (server model) and FsModel     *)
(* (backend API model).                                                    *)
(***************************************************************************)
EXTENDS Naturals, Integers, Sequences, FiniteSets, TLC

-----------------------------------------------------------------------------
(* Paths and the tree *)

IsPrefix(p, q) == Len(p) <= Len(q) /\ SubSeq(q, 1, Len(p)) = p
Parent(p) == IF p = <<>> THEN <<>> ELSE SubSeq(p, 1, Len(p) - 1)

RECURSIVE Fold(_, _)
Fold(acc, segs) ==
  IF segs = <<>> THEN acc
  ELSE LET x == Head(segs) IN
       Fold(IF x = ".." THEN Parent(acc)
            ELSE IF x \in {".", ""} THEN acc ELSE Append(acc, x), Tail(segs))
Resolve(cwd, arg) == Fold(IF arg.abs THEN <<>> ELSE cwd, arg.segs)

IsDirT(t, p)  == p = <<>> \/ p \in t.d
IsFileT(t, p) == p \in DOMAIN t.f
ExistsT(t, p) == IsDirT(t, p) \/ IsFileT(t, p)
NodesT(t) == t.d \cup DOMAIN t.f
ChildrenT(t, p) == {q \in NodesT(t) : Len(q) = Len(p) + 1 /\ IsPrefix(p, q)}
Prefixes(p) == {SubSeq(p, 1, i) : i \in 0..Len(p)}
ThroughFile(t, p) == \E q \in Prefixes(p) : q # p /\ IsFileT(t, q)

Restrict(f, S) == [x \in S |-> f[x]]
PutFile(t, p, c) == [t EXCEPT !.f = [x \in DOMAIN t.f \cup {p} |-> IF x = p THEN c ELSE t.f[x]]]

Zeros(n) == [i \in 1..n |-> 0]
Overlay(c, pos, data) ==     \* write data at 0-based position pos, zero-filling a gap (writing nothing changes nothing)
  IF data = <<>> THEN c ELSE
  LET base == IF pos > Len(c) THEN c \o Zeros(pos - Len(c)) ELSE c
      e == pos + Len(data)
  IN  SubSeq(base, 1, pos) \o data \o (IF e < Len(base) THEN SubSeq(base, e + 1, Len(base)) ELSE <<>>)

(* storage contract: when does a mutation fail, and what does it do *)
MkdirOk(t, p)  == ~ExistsT(t, p) /\ ~ThroughFile(t, p)          \* parents = TRUE
MkdirDo(t, p)  == [t EXCEPT !.d = t.d \cup (Prefixes(p) \ {<<>>})]
RmdirOk(t, p)  == p # <<>> /\ p \in t.d /\ ChildrenT(t, p) = {}
RmdirDo(t, p)  == [t EXCEPT !.d = t.d \ {p}]
UnlinkOk(t, p) == IsFileT(t, p)
UnlinkDo(t, p) == [t EXCEPT !.f = Restrict(t.f, DOMAIN t.f \ {p})]
RenameOk(t, a, b) == /\ ExistsT(t, a) /\ a # <<>> /\ b # <<>>
                     /\ IsDirT(t, Parent(b))
                     /\ ~(IsPrefix(a, b) /\ a # b)
                     /\ (ExistsT(t, b) /\ a # b =>
                           \/ IsFileT(t, a) /\ IsFileT(t, b)
                           \/ IsDirT(t, a) /\ IsDirT(t, b) /\ ChildrenT(t, b) = {})
Move(a, b, q) == b \o SubSeq(q, Len(a) + 1, Len(q))
RenameDo(t, a, b) ==
  IF a = b THEN t ELSE
  LET md == {q \in t.d : IsPrefix(a, q)}
      mf == {q \in DOMAIN t.f : IsPrefix(a, q)}
      kd == (t.d \ md) \ {b}
      kf == (DOMAIN t.f \ mf) \ {b}
      nd == {Move(a, b, q) : q \in md}
      nf == {Move(a, b, q) : q \in mf}
  IN [d |-> kd \cup nd,
      f |-> [x \in kf \cup nf |-> IF x \in nf THEN t.f[CHOOSE q \in mf : Move(a, b, q) = x] ELSE t.f[x]]]
OpenOk(t, p, mode) ==
  IF mode \in {"rb", "r+b"} THEN IsFileT(t, p)
  ELSE ~IsDirT(t, p) /\ IsDirT(t, Parent(p)) /\ p # <<>>
OpenDo(t, p, mode) ==
  IF mode = "wb" THEN PutFile(t, p, <<>>)
  ELSE IF mode = "ab" /\ ~IsFileT(t, p) THEN PutFile(t, p, <<>>) ELSE t

=============================================================================
