----------------------------- MODULE ClientTree -----------------------------
(***************************************************************************)
(* Placement rules of the client's whole-tree operations.  A tree is a set *)
(* of entries [p: path, k: "d"|"f", c: content]; paths are sequences of    *)
(* names.  Upload / download put the source (a file or a directory tree)   *)
(* at destination/source-name, or at destination itself with write_into,   *)
(* creating missing parents; a recursive listing returns every entry of    *)
(* the subtree once, under the path as it was given; remove deletes the    *)
(* subtree and nothing else.  Judge walks over recorded runs of the real   *)
(* client against the real server.                                         *)
(***************************************************************************)
EXTENDS Naturals, Sequences, FiniteSets, TLC, Json, IOUtils
VARIABLE i
Cases == JsonDeserialize(IOEnv.CASE_FILE)

Set(q) == {q[k] : k \in 1..Len(q)}
IsPrefix(p, q) == Len(p) <= Len(q) /\ SubSeq(q, 1, Len(p)) = p
Parent(p) == IF p = <<>> THEN <<>> ELSE SubSeq(p, 1, Len(p) - 1)
RECURSIVE Fold(_, _)
Fold(acc, segs) ==
  IF segs = <<>> THEN acc
  ELSE LET x == Head(segs) IN
       Fold(IF x = ".." THEN Parent(acc) ELSE IF x \in {".", ""} THEN acc ELSE Append(acc, x), Tail(segs))
Resolve(cwd, abs, segs) == Fold(IF abs THEN <<>> ELSE cwd, segs)

Dir(p) == [p |-> p, k |-> "d", c |-> <<>>]
ProperPrefixes(p) == {SubSeq(p, 1, n) : n \in 1..(Len(p) - 1)}
Paths(t) == {e.p : e \in t}
\* directories that have to be created so that p can exist
MissingParents(t, p) == {Dir(q) : q \in ProperPrefixes(p) \ Paths(t)}
\* the source (entries relative to the source root; the root itself is the entry with p = <<>>) placed at target
Placed(src, target) == {[p |-> target \o e.p, k |-> e.k, c |-> e.c] : e \in src}

Target(c) == LET d == Resolve(c.cwd, c.dabs, c.dsegs) IN IF c.write_into THEN d ELSE Append(d, c.srcname)
\* (the root itself always exists and is not an entry)
ExpectedTransfer(c) == LET t == Target(c) IN
  {e \in Set(c.pre) \cup MissingParents(Set(c.pre), t) \cup Placed(Set(c.src), t) : e.p # <<>>}

Subtree(t, r) == {e \in t : IsPrefix(r, e.p)}
\* recursive listing of the directory given as `given` (resolving to r): each entry once, named given/relative
ExpectedListing(c) == LET r == Resolve(c.cwd, c.dabs, c.dsegs) IN
  {[p |-> c.given \o SubSeq(e.p, Len(r) + 1, Len(e.p)), k |-> e.k] : e \in Subtree(Set(c.pre), r) \ {x \in Set(c.pre) : x.p = r}}

Ok(c) ==
  CASE c.op \in {"upload", "download"} -> c.ok /\ Set(c.post) = ExpectedTransfer(c)
    [] c.op = "list" -> /\ c.ok /\ Cardinality(Set(c.listed)) = Len(c.listed)        \* nothing twice
                        /\ {[p |-> e.p, k |-> e.k] : e \in Set(c.listed)} = ExpectedListing(c)
    [] c.op = "remove" -> LET r == Resolve(c.cwd, c.dabs, c.dsegs) IN
                          c.ok /\ Set(c.post) = Set(c.pre) \ Subtree(Set(c.pre), r)
    [] OTHER -> FALSE

Init == i = 1
Next == i <= Len(Cases) /\ i' = i + 1
Spec == Init /\ [][Next]_i
Judge == i > Len(Cases) \/ Ok(Cases[i]) \/ PrintT(<<"BAD", i>>)
=============================================================================
