#!/usr/bin/env python3
"""Apply every harmless change of /verif/benign in turn to a scratch worktree of /repo and run every quick check against it
(PYTHONPATH puts the worktree in front of the editable install; /repo itself is not touched).  Every check must exit 0.
usage: tools/allbenign.py [name-filter ...]   -> writes benign/RESULTS.json"""
import json, os, subprocess, sys
ROOT = os.path.dirname(os.path.dirname(os.path.abspath(__file__)))
OUT = os.environ.get("SWEEP_OUT", ROOT + "/benign/RESULTS.json")
names = sorted(d for d in os.listdir(ROOT + "/benign") if os.path.isdir(ROOT + "/benign/" + d))
if len(sys.argv) > 1:
    names = [n for n in names if any(a in n for a in sys.argv[1:])]
wt = "/tmp/benign-wt-%d" % os.getpid()
subprocess.run(["git", "-C", "/repo", "worktree", "remove", "--force", wt], capture_output=True)
subprocess.run(["git", "-C", "/repo", "worktree", "add", "--detach", wt, "HEAD"], check=True, capture_output=True)
out = {}
try:
    env = dict(os.environ, PYTHONPATH=wt + "/src")
    for n in names:
        subprocess.run(["git", "-C", wt, "checkout", "-q", "--", "."], check=True)
        if subprocess.run(["git", "-C", wt, "apply", ROOT + "/benign/%s/patch.diff" % n]).returncode:
            out[n] = {"error": "patch does not apply"}
            print(n, "PATCH DOES NOT APPLY", flush=True)
            continue
        res = {}
        # SWEEP_STRIDE=k: every k-th check per change, rotating with the change (a third of all pairs for k=3) - for when the
        # whole sweep (18 x 20 quick checks, several hours) does not fit
        stride = int(os.environ.get("SWEEP_STRIDE", "1"))
        offset = int(os.environ.get("SWEEP_OFFSET", "0"))
        for c in ["C%02d" % i for i in range(1, 21) if (i + names.index(n)) % stride == offset]:
            r = subprocess.run(["./check", c, "--tier", "quick"], cwd=ROOT, env=env, capture_output=True, text=True, timeout=3600)
            res[c] = r.returncode
        out[n] = res
        print(n, "alarms:", [c for c, rc in res.items() if rc != 0], flush=True)
        json.dump(out, open(OUT, "w"), indent=1)
finally:
    subprocess.run(["git", "-C", "/repo", "worktree", "remove", "--force", wt], capture_output=True)
json.dump(out, open(OUT, "w"), indent=1)
bad = {n: [c for c, rc in r.items() if rc != 0] for n, r in out.items() if "error" in r or any(rc != 0 for rc in r.values())}
print("changes that raised an alarm:", bad)
sys.exit(1 if bad else 0)
