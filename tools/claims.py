claim("C05", CORE_TEXT + "C05: seeded random one-at-a-time raw sessions over all 25 verbs, unknown verbs and malformed arguments; "
      "each must be a behaviour of the sequential reference model (one final reply per command, exact codes, login/cwd/rename/"
      "restart-offset/tree state).", "TLA+ trace validation (TLC) of real server executions against FtpCore")
claim("C12", CORE_TEXT + "C12: scripted corpus cut after every step, while the j-th backend call is in flight and while the passive "
      "listener is being opened (peer EOF / server.close()); sockets, listeners, file handles, table, slots and pool must equal the "
      "model's at every quiescent instant.", "TLA+ trace validation with crash-point enumeration (gated backend, gated listener start-up)")
claim("C13", CORE_TEXT + "C13: the k-th backend call (and the n-th call of each operation kind) of every corpus script fails; the model "
      "requires 451, release of the data socket and file before the reply, and ordinary behaviour afterwards, with a second session observing.",
      "TLA+ trace validation with fault injection at every backend call site")
claim("C14", CORE_TEXT + "C14: ABOR at every step position, while the j-th backend call is in flight, and at event-loop-iteration "
      "granularity around start and end of each transfer kind, followed by further commands and a second transfer.",
      "TLA+ trace validation with schedule enumeration (gates, loop-iteration offsets)")
claim("C03", CORE_TEXT + "C03: all command histories of length <= 2 and seeded ones up to 6 over 29 command kinds (every login variant "
      "interleaved with every guarded verb, transfers with a data connection), on user tables with and without an anonymous entry; "
      "the specification admits a backend call, listener, worker, cwd or tree change only for a logged-in session.",
      "TLA+ trace validation (TLC) of exhaustive/seeded command histories + TLC model check of MC_Seq")
claim("C10", CORE_TEXT + "C10: seeded interleavings of connect/USER/PASS/QUIT/vanish/garbage/idle timeout/server.close() over 4 sessions "
      "with server-wide and per-user limits, and every prefix of long schedules followed by server.close(); counters compared with the "
      "model (conservation equalities are TLC invariants of MC_Res).", "TLA+ trace validation with cut-at-every-event + TLC invariants (MC_Res)")
claim("C11", CORE_TEXT + "C11: PASV/EPSV schedules over 3 sessions x pool sizes 0..3 x per-port fault plans x cancellation held at both "
      "gates of the listener start-up; pool and listeners compared with the model at every quiescent instant (port conservation is a TLC "
      "invariant of MC_Res).", "TLA+ trace validation with fault plans and gated listener start-up + TLC invariants (MC_Res)")
claim("C16", CORE_TEXT + "C16: stalls inserted at every position of the corpus scripts and stalled data connections under combinations of "
      "idle / wait / socket timeouts in virtual time; the model admits a timeout action only at its exact deadline and rejects an overdue one.",
      "TLA+ trace validation with exact virtual timestamps + TLC model check (MC_Timed)")
claim("C17", CORE_TEXT + "C17: 2-3 sessions on disjoint subtrees under a seeded scheduler that holds and releases backend calls; the "
      "interleaved execution must be a behaviour of the multi-session model and each session's transcript must equal its solo run; "
      "non-interference action properties are checked by TLC on MC_Iso.", "TLA+ trace validation of interleavings + solo differential + TLC action properties (MC_Iso)")
claim("C04", CORE_TEXT + "C04: permission tables (nested, overlapping, duplicated with disagreeing flags, unordered, empty, random) x "
      "sessions of all 13 permission-checked verbs on aliases of targets of depth 0..3 from varying working directories; the model "
      "computes the set of admissible verdicts from the nearest entries on the resolved path and a refusal must leave tree and cwd "
      "unchanged (invariant C04_RefusalIsNoop on MC_Perm, tree snapshot comparison on the implementation).",
      "TLA+ trace validation over permission tables and path aliases + TLC model check (MC_Perm)")
claim("C02", "PathModel.tla defines resolution (fold of '..' from the root, normal form, re-rooting under the base, backslash = separator on "
      "Windows real paths); TLC judges every recorded (input, output) pair of the real Server.get_paths for all arguments up to a "
      "segment bound over a hostile segment alphabet x prefixes x working directories x POSIX/Windows bases, and checks structural "
      "properties of the definition on the same inputs. At the wire, FtpCore's trace validation rejects any backend call whose path "
      "is outside the user's base and any PWD that differs from the model's working directory.",
      "TLC evaluation of PathModel on exhaustively enumerated get_paths pairs + TLA+ trace validation at the wire",
      note="Trusted base: TLC; the harness's splitting of strings on '/' and '\\\\'; pathlib.Pure*Path as the representation of bases (no "
           "real Windows file system is involved); CPython 3.12 pathlib join semantics.")
claim("C18", "FsOps.tla / FsModel.tla state the storage contract (result-or-failure and effect of every AbstractPathIO operation, open "
      "handles with POSIX inode semantics). API level: every single operation and seeded sequences are executed on PathIO and "
      "AsyncPathIO, compared step by step with each other (the property is relational: a difference is the violation) and judged by "
      "FsModel in TLC (a difference there is a specification error, exit 2). FTP level: the same seeded sessions run on all three "
      "backends; each execution is validated against FtpCore (which embeds the same contract) and reply codes and trees are compared "
      "across backends.", "TLC judgement of recorded backend operation sequences (FsModel) + three-way differential + FtpCore trace validation",
      note="Trusted base: TLC; a temporary directory on the sandbox file system stands for 'the real file system'; AsyncPathIO runs "
           "with an inline executor (no threads).")
claim("C01", "Transfer.tla states what an upload (STOR/APPE, with or without restart offset) must leave in the file and what a download "
      "from an offset must deliver; TLC judges every recorded transfer made by the real client streams against the real server "
      "(sizes around block multiples, position-tagged and hostile byte values, offsets 0/inside/end/beyond, client chunkings, network "
      "segmentations and latencies, EPSV/PASV, three backends, throttled), including visibility to another session, stat and listing "
      "size after the 226. The same executions are validated against FtpCore, which accounts for every block written/read and admits "
      "the 226 only after file and data socket are closed.", "TLC judgement of recorded client/server transfers (Transfer.tla) + FtpCore trace validation",
      note="Trusted base: TLC; the simulated network delivers exactly the bytes written (FIFO per direction); content families are finite "
           "(all 256 values once, CR/LF/NUL/IAC runs, position tags): the claim for 'any content' rests on the code not branching on "
           "byte values, which the families are designed to attack.")
claim("C06", "Framing.tla defines the encoder (plain and listing-style multi-line replies), the decoder (RFC 959 continuation rule, "
      "mismatching continuation code = error, resynchronisation), the round-trip property, the code-mask rule and the command split on "
      "character sequences. Replies over 16 hostile line kinds x 1..3 lines x 2 modes x 2 codes, each followed by a second reply, are "
      "written by the real Server.write_response, delivered under several segmentations and decoded by the real Client.parse_response "
      "in two encodings; TLC judges every record (wire = Enc, decoded = Dec(wire), round trip), plus hand-made mismatching streams, "
      "all code/mask pairs over a 7-symbol alphabet and Server.parse_command.", "TLC judgement of recorded encoder/decoder runs against Framing.tla",
      note="Trusted base: TLC; texts with trailing whitespace are outside the family (the codec right-strips by design); the simulated "
           "stream pair; one 8-bit encoding (cp1251) besides utf-8.")
claim("C15", "Throttle.tla models one limiter in integer ticks (window origin, accounted bytes, half-even fold every reset period, "
      "concurrent waits, limit change) with RateBound, NoNeedlessDelay and Typed checked exhaustively by TLC on MC_Throttle. Every "
      "Throttle object's wait/append/limit events - recorded by harness-side wrappers in exact virtual time - during (a) seeded API "
      "sequences, (b) 1-3 ThrottleStreamIO streams sharing and owning throttles, (c) real client/server transfers with limits at random "
      "subsets of the five levels - must be a behaviour of the model (a wait ends exactly when the accounting allows, no wait without a "
      "limit) and satisfy RateBound in every state; ThrottleSys.tla judges ground-truth byte counts against every configured limit and "
      "unlimited runs must take zero virtual time.", "TLA+ trace validation of throttle event streams (exact virtual time) + TLC model check (MC_Throttle)",
      note="Trusted base: TLC; limits and times are dyadic (ticks of 1/64 s) so that float arithmetic is exact - arbitrary limits and "
           "float rounding are not covered; wrappers around Throttle.wait/append/limit are installed by the harness at run time.")
claim("C20", "LoginLog.tla states what a log record may contain (tokens; never the password token; star runs of the password's length; a "
      "twin session with another password of equal length logs identical text). All records of the root, aioftp.client and aioftp.server "
      "loggers at DEBUG during real login sessions - 11 password classes x 4 outcomes x the real Client.login and raw-wire spellings of the "
      "verb - are tokenised and judged by TLC.", "TLC judgement of tokenised log records (LoginLog.tla) + non-interference twin runs",
      note="Trusted base: TLC; the tokeniser (literal search for the concrete password and its stripped form in every formatted record); "
           "password classes are a finite family designed around the censoring code paths (verb spelling, slicing by length, format "
           "directives), not all strings.", design="7")
claim("C09", "ClientTree.tla states the placement rules (destination/source-name, or destination with write_into; missing parents "
      "created; recursive listing = every entry of the subtree once under the path as given; remove = subtree gone, nothing else). "
      "Source trees of depth <= 2 / fan-out <= 2 x destinations x write_into x working directories x pre-existing content x block "
      "sizes x MLSD and LIST-fallback servers are run through the real Client.upload/download/list/remove against the real server and "
      "TLC compares the resulting trees including contents.", "TLC judgement of recorded client tree operations against ClientTree.tla",
      note="Trusted base: TLC; client side on MemoryPathIO; destinations containing '..' are outside the stated family.")
claim("C08", "Names.tla treats a name as an opaque token and states what each step of a 14-step tour (create, enter, PWD, leave, list, "
      "stat, exists, upload, download, append, rename there and back, delete) must return. All sequences of <= 2 (quick) / 3 (thorough) "
      "character classes out of 18 hostile classes, at nesting depth 1..3 and also as file names, go through the real client methods "
      "against the real server; TLC compares every returned value and the backend tree, and FtpCore validates the wire trace of each tour.",
      "TLC judgement of recorded name tours (Names.tla) + FtpCore trace validation",
      note="Trusted base: TLC; names needing a trailing blank, lone surrogates and names longer than 200 bytes are outside the family; "
           "the LIST-fallback spelling of names is C07's subject.")
claim("C07", "LsTime.tla contains the calendar arithmetic (days<->civil, leap rule) in integers and the precision rules of the MLSx and "
      "ls formats (UTC seconds; local minute within the last half year, local day otherwise; one-day ambiguity window). TLC judges "
      "(a) tens of thousands of (mtime, now, zone) pairs pushed through the real Server.build_list_mtime -> Client.parse_ls_date and "
      "_format_mlsx_time, and (b) what the real client's list()/stat() return over MLSD/MLST and over the LIST fallback for directories "
      "with spoofed sizes (to 2^40), times and hostile names under a controlled current time, against the backend's truth; entry sets of "
      "every listing are also checked inside FtpCore trace validation.", "TLC judgement of recorded formatter/parser pairs and client listings against LsTime.tla",
      note="Trusted base: TLC; only fixed-offset zones (DST zones excluded: the year-less format is ambiguous in the repeated hour); "
           "only the C/POSIX locales exist in the sandbox; years 1970-2037 (32-bit integers in TLC).")
claim("C19", CORE_TEXT + "C19 (server side): a victim session runs a corpus script while 1-2 hostile sessions send undecodable bytes, "
      "over-limit lines, NUL/LF-only/blank lines, mutated arguments and fragments cut by EOF; the interleaved execution must be a "
      "behaviour of the multi-session model and the victim's transcript must equal its solo run. (client side): ParserContract.tla states "
      "the contract of the client's entry points; a mutation product over unix/windows/MLSx line templates, PASV/EPSV/257 payloads and "
      "dates goes through the real parsers, and Client.list() runs against a scripted server sending '.', '..', name cycles, undecodable "
      "and unparsable lines under a step budget; TLC judges every outcome.", "TLA+ trace validation with hostile sessions + TLC judgement of parser outcomes (ParserContract.tla)",
      note=CORE_NOTE + " For the pure parsers TLC acts as the judge of a bounded mutation grammar, not as a behavioural model: this decides the "
      "property on that family, not on all byte strings (coverage-guided fuzzing would be the fitting tool and is outside this technique family). "
      "Pipelined hostile input is not covered.")
