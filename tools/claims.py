claim("C05", CORE_TEXT + "C05: seeded random one-at-a-time raw sessions over all 25 verbs, unknown verbs and malformed arguments; "
      "each must be a behaviour of the sequential reference model (one final reply per command, exact codes, login/cwd/rename/"
      "restart-offset/tree state).", "TLA+ trace validation (TLC) of real server executions against FtpCore")
claim("C12", CORE_TEXT + "C12: scripted corpus cut after every step, while the j-th backend call is in flight and while the passive "
      "listener is being opened (peer EOF / server.close()); sockets, listeners, file handles, table, slots and pool must equal the "
      "model's at every quiescent instant.", "TLA+ trace validation with crash-point enumeration (gated backend, gated listener start-up)")
claim("C13", CORE_TEXT + "C13: the k-th backend call (and the n-th call of each operation kind) of every corpus script fails; the model "
      "requires 451, release of the data socket and file before the reply, and ordinary behaviour afterwards, with a second session observing.",
      "TLA+ trace validation with fault injection at every backend call site")
claim("C14", CORE_TEXT + "C14: ABOR at every step position, while the j-th backend call is in flight, and at event-loop-iteration "
      "granularity around start and end of each transfer kind, followed by further commands and a second transfer.",
      "TLA+ trace validation with schedule enumeration (gates, loop-iteration offsets)")
