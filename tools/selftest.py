#!/venv/bin/python
"""Binding self-test: a recorded trace of the real server is accepted by TraceFtpCore; the same trace with one field
corrupted, one event removed or one event duplicated is rejected, at the corrupted position.

usage: tools/selftest.py      (writes /verif/evidence/selftest.json, exit 0 iff every expectation holds)"""
import copy
import json
import os
import random
import sys

sys.path.insert(0, os.path.dirname(os.path.dirname(os.path.abspath(__file__))))
from harness import corecheck, gen, tlc  # noqa

cfg = gen.std_cfg(ns=2)
scheds = [gen.corpus(1, "u1")[k] for k in ("nav", "stor_post", "retr_rest", "list", "abort", "nodata")]
results = [corecheck.run_one((cfg, gen.STD_TREE, s)) for s in scheds]
traces = [r["trace"] for r in results]
res, _ = tlc.validate_traces(cfg, traces)
report = {"accepted_originals": all(res[i][0] == res[i][1] for i in range(len(traces))), "mutations": []}
rng = random.Random(1)
mutated, expect = [], []
for ti, tr in enumerate(traces):
    idx = [i for i, e in enumerate(tr) if e["ev"] == "Reply"]
    for kind in ("reply-code", "drop-reply", "dup-reply", "data-byte", "snap-counter", "fs-path", "time-back"):
        t = copy.deepcopy(tr)
        pos = None
        if kind == "reply-code":
            pos = rng.choice(idx)
            t[pos]["code"] = "250" if t[pos]["code"] != "250" else "550"
        elif kind == "drop-reply":
            pos = rng.choice(idx)
            del t[pos]
        elif kind == "dup-reply":
            pos = rng.choice(idx)
            t.insert(pos, copy.deepcopy(t[pos]))
            pos += 1
        elif kind == "data-byte":
            c = [i for i, e in enumerate(t) if e["ev"] in ("DataOut",) and e.get("data") and len(e["data"]) < 10] or \
                [i for i, e in enumerate(t) if e["ev"] == "FsFile" and e["op"] == "write"]
            if not c:
                continue
            pos = rng.choice(c)
            t[pos]["data"][0] = (t[pos]["data"][0] + 1) % 256
        elif kind == "snap-counter":
            c = [i for i, e in enumerate(t) if e["ev"] == "Snap" and e["dsock"]]
            if not c:
                continue
            pos = rng.choice(c)
            t[pos]["dsock"] = []
        elif kind == "fs-path":
            c = [i for i, e in enumerate(t) if e["ev"] == "FsMut"]
            if not c:
                continue
            pos = rng.choice(c)
            t[pos]["p"] = t[pos]["p"] + ["zz"]
        elif kind == "time-back":
            c = [i for i, e in enumerate(t) if e["t"] > 0]
            if not c:
                continue
            pos = c[-1]
            t[pos]["t"] = 0
        mutated.append(t)
        expect.append((ti, kind, pos))
res2, _ = tlc.validate_traces(cfg, mutated)
ok = report["accepted_originals"]
for i, (ti, kind, pos) in enumerate(expect):
    m, n = res2[i]
    rejected = m < n
    report["mutations"].append({"trace": ti, "kind": kind, "position": pos, "rejected": rejected, "matched_prefix": m, "length": n})
    ok = ok and rejected and m <= pos + 1
# the same for the client model: traces of the real client against the scripted server
from harness import clientproto as cp  # noqa

def _strip(t):
    return [{k: v for k, v in e.items() if k != "exc"} for e in t]

ctraces = []
for seed in range(40):
    sc = cp.rand_scenario(1000 + seed)
    sc["p"] = 0.1
    r = cp.run_random(sc)
    if len(r["trace"]) > 12:
        ctraces.append(_strip(r["trace"]))
ctraces = ctraces[:8]
cres, _ = tlc.validate_plain("TraceClientProto", ctraces)
report["client_accepted_originals"] = all(cres[i][0] == cres[i][1] for i in range(len(ctraces)))
ok = ok and report["client_accepted_originals"]
cmut, cexp = [], []
for ti, tr in enumerate(ctraces):
    for kind in ("send-verb", "drop-send", "ret-kind", "reply-code", "end-blocked", "dup-send"):
        t = copy.deepcopy(tr)
        sends = [i for i, e in enumerate(t) if e["ev"] == "Send"]
        rets = [i for i, e in enumerate(t) if e["ev"] == "Ret"]
        if kind == "send-verb" and sends:
            pos = rng.choice(sends)
            t[pos]["v"] = "NOOP" if t[pos]["v"] != "NOOP" else "PWD"
        elif kind == "drop-send" and sends:
            pos = rng.choice(sends)
            del t[pos]
        elif kind == "dup-send" and sends:
            pos = rng.choice(sends)
            t.insert(pos, copy.deepcopy(t[pos]))
            pos += 1
        elif kind == "ret-kind" and rets:
            pos = rng.choice(rets)
            t[pos]["kind"] = "ok" if t[pos]["kind"] != "ok" else "SCE"
        elif kind == "reply-code":
            # a different code for the greeting: the client must then end connect() differently
            pos = [i for i, e in enumerate(t) if e["ev"] == "Reply"][0]
            t[pos]["code"] = 530 if t[pos]["code"] in (220, 120) else 220
        elif kind == "end-blocked":
            pos = len(t) - 1
            t[pos]["blocked"] = not t[pos]["blocked"]
        else:
            continue
        cmut.append(t)
        cexp.append((ti, kind, pos))
cres2, _ = tlc.validate_plain("TraceClientProto", cmut)
for i, (ti, kind, pos) in enumerate(cexp):
    m, n = cres2[i]
    rejected = m < n
    report["mutations"].append({"trace": "client-%d" % ti, "kind": kind, "position": pos, "rejected": rejected, "matched_prefix": m, "length": n})
    ok = ok and rejected
expect = expect + cexp
report["ok"] = ok
os.makedirs("/verif/evidence", exist_ok=True)
json.dump(report, open("/verif/evidence/selftest.json", "w"), indent=1)
print("selftest:", "ok" if ok else "FAILED", "-", len(expect), "corrupted traces,", sum(1 for m in report["mutations"] if m["rejected"]), "rejected")
sys.exit(0 if ok else 1)
