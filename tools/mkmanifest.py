#!/usr/bin/env python3
"""Regenerate /verif/MANIFEST.json from the table below (claimed checks) and properties.jsonl."""
import json, os
HERE = os.path.dirname(os.path.dirname(os.path.abspath(__file__)))
props = [json.loads(l) for l in open(os.path.join(HERE, "properties.jsonl"))]
ids = [p["id"] for p in props]

CORE_NOTE = ("Trusted base: TLC; the harness substrate (virtual-time asyncio loop, in-memory network, spy storage backend) "
             "which replaces sockets, clock and executor threads; CPython 3.12 asyncio internals. Real sockets, TLS and "
             "thread pools are not exercised.")
CORE_TEXT = ("FtpCore.tla (implementation-shaped model of dispatcher, handlers, workers, listeners, port pool, slots, tree, "
             "timers, teardown) is model-checked by TLC on small configurations, and every execution of the real server "
             "recorded on the deterministic substrate is validated against it event by event (no silent steps), with the "
             "projected implementation state and resource ledger compared at every quiescent instant. ")

CLAIMS = {}

def claim(pid, text, technique, note=CORE_NOTE, design="7"):
    CLAIMS[pid] = {"text": text, "technique": technique, "note": note, "design": design}

exec(open(os.path.join(HERE, "tools", "claims.py")).read())

checks = []
for pid in ids:
    if pid in CLAIMS:
        c = CLAIMS[pid]
        checks.append({
            "property_id": pid,
            "quick_cmd": "./check %s --tier quick" % pid,
            "thorough_cmd": "./check %s --tier thorough" % pid,
            "evidence_file": "/verif/evidence/%s.json" % pid,
            "replay_cmd_template": "./check %s --replay {path}" % pid,
            "engine": "tlc",
            "level_claimed": {"category": "model_checking", "text": c["text"], "design_ref": "DESIGN.md §" + c["design"]},
            "level_note": c["note"],
            "technique": c["technique"],
        })
na = [{"property_id": pid, "reason": "check not built yet (work in progress; see DESIGN.md §7 for the plan)"} for pid in ids if pid not in CLAIMS]
m = {
    "version": 1,
    "setup_cmd": "cd /verif && /venv/bin/python -m compileall -q harness checks >/dev/null && (cd specs && for f in *.tla; do tla-sany $f >/dev/null || exit 1; done)",
    "hooks": {"guard": "AIOFTP_VERIF",
              "enable": "no source hooks: every observation is taken at a boundary the harness owns (network, clock, storage backend, logging); checks import /repo/src/aioftp as it is (editable install)",
              "baseline_off_cmd": "cd /repo && /venv/bin/python -m pytest -ra -q -p no:cacheprovider --timeout=900 --continue-on-collection-errors",
              "source_commits": [], "add_only": True},
    "engines": [{"name": "tlc", "path": "/opt/veriftools/tla/tla2tools.jar", "serves_properties": sorted(CLAIMS),
                 "kind_free_text": "TLA+ specifications (/verif/specs) checked by TLC 1.8; trace validation of real executions and spec-driven replay on a deterministic asyncio substrate (/verif/harness)"}],
    "checks": checks,
    "not_applicable": na,
    "notes": "fix: commits in /repo repair genuine defects found by these checks; see known_findings.jsonl and DESIGN.md §8.",
}
json.dump(m, open(os.path.join(HERE, "MANIFEST.json"), "w"), indent=1)
print("claimed:", sorted(CLAIMS), "not claimed:", [x["property_id"] for x in na])
