#!/usr/bin/env python3
"""Apply every seeded change in turn to /repo, run the owning property's quick check, revert.  Writes seeded/RESULTS.json."""
import json, os, subprocess, sys
out = json.load(open("/verif/seeded/RESULTS.json")) if len(sys.argv) > 1 and os.path.exists("/verif/seeded/RESULTS.json") else {}
names = sorted(d for d in os.listdir("/verif/seeded") if os.path.isdir("/verif/seeded/" + d))
if len(sys.argv) > 1:
    names = [n for n in names if any(a in n for a in sys.argv[1:])]
assert subprocess.run(["git", "-C", "/repo", "status", "--porcelain"], capture_output=True, text=True).stdout.strip() == "", "/repo not clean"
for n in names:
    meta = json.load(open("/verif/seeded/%s/meta.json" % n))
    prop = meta["breaks_property"]
    if meta.get("expected") == "harmless-after-fix":
        out[n] = {"property": prop, "exit": None, "violations": 0, "note": "neutralised by a fix: commit, not expected to be detected"}
        continue
    if subprocess.run(["git", "-C", "/repo", "apply", "/verif/seeded/%s/patch.diff" % n]).returncode:
        out[n] = {"property": prop, "exit": None, "violations": 0, "error": "patch does not apply"}
        print("%-50s %s PATCH DOES NOT APPLY" % (n, prop), flush=True)
        continue
    try:
        c = subprocess.run(["./check", prop, "--tier", "quick"], cwd="/verif", capture_output=True, text=True, timeout=1800)
        viol = sum(1 for l in c.stdout.split("\n") if l.startswith("VIOLATION"))
        out[n] = {"property": prop, "exit": c.returncode, "violations": viol}
        print("%-50s %s exit=%d violations=%d" % (n, prop, c.returncode, viol), flush=True)
    finally:
        subprocess.run(["git", "-C", "/repo", "checkout", "--", "."], check=True)
json.dump(out, open("/verif/seeded/RESULTS.json", "w"), indent=1)
missed = [n for n, r in out.items() if r["exit"] != 1 and "note" not in r]
print("missed by the owning check:", missed)
