#!/usr/bin/env python3
"""Apply every seeded change in turn to a scratch worktree of /repo (PYTHONPATH puts it in front of the editable install; /repo
itself is not touched), run the owning property's quick check against it, revert.  Writes seeded/RESULTS.json (or $SWEEP_OUT).
usage: tools/allseeds.py [name-filter ...]     (with filters the earlier results are kept and merged)"""
import json, os, subprocess, sys
ROOT = os.path.dirname(os.path.dirname(os.path.abspath(__file__)))
OUT = os.environ.get("SWEEP_OUT", ROOT + "/seeded/RESULTS.json")
out = json.load(open(OUT)) if len(sys.argv) > 1 and os.path.exists(OUT) else {}
names = sorted(d for d in os.listdir(ROOT + "/seeded") if os.path.isdir(ROOT + "/seeded/" + d))
if len(sys.argv) > 1:
    names = [n for n in names if any(a in n for a in sys.argv[1:])]
wt = "/tmp/seeds-wt-%d" % os.getpid()
subprocess.run(["git", "-C", "/repo", "worktree", "add", "--detach", wt, "HEAD"], check=True, capture_output=True)
env = dict(os.environ, PYTHONPATH=wt + "/src")
try:
    for n in names:
        meta = json.load(open(ROOT + "/seeded/%s/meta.json" % n))
        prop = meta["breaks_property"]
        if meta.get("expected") == "harmless-after-fix":
            out[n] = {"property": prop, "exit": None, "violations": 0, "note": "neutralised by a fix: commit, not expected to be detected"}
            continue
        subprocess.run(["git", "-C", wt, "checkout", "-q", "--", "."], check=True)
        if subprocess.run(["git", "-C", wt, "apply", ROOT + "/seeded/%s/patch.diff" % n]).returncode:
            out[n] = {"property": prop, "exit": None, "violations": 0, "error": "patch does not apply"}
            print("%-50s %s PATCH DOES NOT APPLY" % (n, prop), flush=True)
            continue
        c = subprocess.run(["./check", prop, "--tier", "quick"], cwd=ROOT, env=env, capture_output=True, text=True, timeout=1800)
        viol = sum(1 for l in c.stdout.split("\n") if l.startswith("VIOLATION"))
        out[n] = {"property": prop, "exit": c.returncode, "violations": viol}
        print("%-50s %s exit=%d violations=%d" % (n, prop, c.returncode, viol), flush=True)
        json.dump(out, open(OUT, "w"), indent=1)
finally:
    subprocess.run(["git", "-C", "/repo", "worktree", "remove", "--force", wt], capture_output=True)
json.dump(out, open(OUT, "w"), indent=1)
missed = [n for n, r in out.items() if r["exit"] != 1 and "note" not in r]
print("missed by the owning check:", missed)
