#!/usr/bin/env python3
"""Confirm a seeded change and run our checks against it.

usage: tools/tryseed.py <name> <worktree-with-SEED> <PROP> [<PROP> ...]
Copies SEED/ to /verif/seeded/<name>/, then in a *fresh* scratch worktree: demonstration without the patch, then with it,
baseline suite with the patch, and the given checks run against that worktree (PYTHONPATH); /repo is not touched.
"""
import json, os, shutil, subprocess, sys, glob

name, wt, props = sys.argv[1], sys.argv[2], sys.argv[3:]
ROOT = os.path.dirname(os.path.dirname(os.path.abspath(__file__)))   # (a snapshot copy of /verif works too: SEED_DST=/verif/seeded)
dst = os.environ.get("SEED_DST", ROOT + "/seeded") + "/" + name
os.makedirs(dst, exist_ok=True)
for f in os.listdir(wt + "/SEED"):
    if os.path.isfile(os.path.join(wt, "SEED", f)):
        shutil.copy(os.path.join(wt, "SEED", f), dst)
patch = dst + "/patch.diff"
demo = [f for f in os.listdir(dst) if f.startswith(("demo", "test_demo")) and f.endswith(".py")][0]
scratch = "/tmp/confirm-" + name
subprocess.run(["git", "-C", "/repo", "worktree", "remove", "--force", scratch], capture_output=True)
subprocess.run(["git", "-C", "/repo", "worktree", "add", "--detach", scratch, "HEAD"], check=True, capture_output=True)
env = dict(os.environ, PYTHONPATH=scratch + "/src")
def run(cmd, **kw):
    return subprocess.run(cmd, cwd=scratch, env=env, capture_output=True, text=True, **kw)
def demo_cmd():
    if demo.startswith("test_"):
        return ["/venv/bin/python", "-m", "pytest", "-q", "-p", "no:cacheprovider", "-o", "addopts=", dst + "/" + demo]
    return ["/venv/bin/python", dst + "/" + demo]
res = {}
try:
    r0 = run(demo_cmd(), timeout=300)
    res["demo_without_patch_exit"] = r0.returncode
    a = run(["git", "apply", patch])
    if a.returncode:
        raise SystemExit("patch does not apply: " + a.stderr)
    r1 = run(demo_cmd(), timeout=300)
    res["demo_with_patch_exit"] = r1.returncode
    t = run(["/venv/bin/python", "-m", "pytest", "-ra", "-q", "-p", "no:cacheprovider", "--timeout=900", "--continue-on-collection-errors"], timeout=900)
    res["suite_with_patch_tail"] = t.stdout.strip().split("\n")[-1]
    # our checks against the scratch worktree with the patch applied (PYTHONPATH puts it in front of the editable install),
    # so /repo itself is not touched and several seeds can be tried at the same time
    res["checks"] = {}
    env2 = dict(os.environ, PYTHONPATH=scratch + "/src")
    for p in props:
        c = subprocess.run(["./check", p, "--tier", "quick"], cwd=ROOT, capture_output=True, text=True, timeout=3600, env=env2)
        viol = [l for l in c.stdout.split("\n") if l.startswith("VIOLATION")]
        sigs = sorted({l.strip() for l in c.stdout.split("\n") if l.strip().startswith("signature:")})[:4]
        res["checks"][p] = {"exit": c.returncode, "violations": len(viol), "signatures": sigs}
finally:
    subprocess.run(["git", "-C", "/repo", "worktree", "remove", "--force", scratch], capture_output=True)
print(json.dumps(res, indent=1))
json.dump(res, open(dst + "/confirm.json", "w"), indent=1)
